#!/usr/bin/env python3
"""Regenerates harness/tgv-ide/src/operand_conversions.tsv: operator calls whose operands are
values of DECLARED types (fields of `src`, the conversion-matrix record of C13's library) that
llvm-tblgen 14 accepts with the stated result type. The table is data transcribed from the
reference implementation's behaviour, like typed::convertible; C13's thorough tier audits every
program built from it against llvm-tblgen again. Needs llvm-tblgen; not run by any check."""
import itertools, os, subprocess, sys, tempfile

TYPES = ["bit", "int", "string", "code", "dag", "bits<1>", "bits<2>", "list<int>", "list<bit>", "list<bits<1>>",
         "list<string>", "list<code>", "list<list<int>>", "D0", "D1", "list<D0>", "list<D1>"]
VALS = ["1", "1", '"s"', "[{c}]", "(op)", "{1}", "{1, 0}", "[1]", "[1]", "[ {1} ]", '["s"]', "[[{c}]]", "[[1]]", "d0", "dd", "[d0]", "[dd]"]
V = {t: f"src.v{i}" for i, t in enumerate(TYPES)}
PRE = "def op;\nclass A<int p = 0> { int f = p; }\nclass D0;\nclass D1 : D0;\ndef d0 : D0;\ndef dd : D1;\nclass Src {\n" + \
      "".join(f"  {t} v{i} = {v};\n" for i, (t, v) in enumerate(zip(TYPES, VALS))) + "}\ndef src : Src;\n"
KINDS = {
    "I": [V["int"], V["bit"], V["bits<1>"], V["bits<2>"]],
    "S": [V["string"], V["code"]],
    "LI": [V["list<int>"], V["list<bit>"], V["list<bits<1>>"]],
    "LS": [V["list<string>"], V["list<code>"]],
}
OPS = [
    ("int", "!add({0}, {1})", "II"), ("int", "!sub({0}, {1})", "II"), ("int", "!mul({0}, {1})", "II"),
    ("int", "!and({0}, {1})", "II"), ("int", "!or({0}, {1})", "II"), ("int", "!xor({0}, {1})", "II"),
    ("int", "!shl({0}, {1})", "II"), ("int", "!sra({0}, {1})", "II"), ("int", "!srl({0}, {1})", "II"), ("int", "!not({0})", "I"),
    ("bit", "!eq({0}, {1})", "II"), ("bit", "!ne({0}, {1})", "II"), ("bit", "!lt({0}, {1})", "II"), ("bit", "!le({0}, {1})", "II"),
    ("bit", "!gt({0}, {1})", "II"), ("bit", "!ge({0}, {1})", "II"), ("bit", "!eq({0}, {1})", "SS"), ("bit", "!lt({0}, {1})", "SS"),
    ("int", "!if({0}, 1, 2)", "I"), ("int", "!if(1, {0}, {1})", "II"), ("string", "!if(1, {0}, {1})", "SS"), ("int", "!cond({0}: 1, 1: 2)", "I"),
    ("string", "!strconcat({0}, {1})", "SS"), ("string", "!substr({0}, {1})", "SI"), ("int", "!find({0}, {1})", "SS"),
    ("string", "!subst({0}, {1}, {2})", "SSS"),
    ("int", "!size({0})", ["LI"]), ("int", "!size({0})", "S"), ("bit", "!empty({0})", ["LI"]), ("bit", "!empty({0})", "S"),
    ("int", "!head({0})", ["LI"]), ("list<int>", "!tail({0})", ["LI"]), ("list<int>", "!listconcat({0}, {1})", ["LI", "LI"]),
    ("list<int>", "!listsplat({0}, {1})", "II"), ("string", "!interleave({0}, {1})", ["LS", "S"]), ("string", "!interleave({0}, {1})", ["LI", "S"]),
    ("list<int>", "!foreach(e, {0}, !add(e, 1))", ["LI"]), ("list<int>", "!filter(e, {0}, !gt(e, 1))", ["LI"]),
    ("int", "!foldl({0}, {1}, acc, e, !add(acc, e))", ["I", "LI"]),
]

def main():
    out = []
    with tempfile.TemporaryDirectory() as d:
        path = os.path.join(d, "t.td")
        for rt, tpl, ks in OPS:
            for combo in itertools.product(*[KINDS[k] for k in ks]):
                expr = tpl.format(*combo)
                open(path, "w").write(PRE + f"def user {{ {rt} r = {expr}; }}\n")
                if subprocess.run(["llvm-tblgen", path], capture_output=True).returncode == 0:
                    out.append(f"{rt}\t{expr}\n")
    dst = os.path.join(os.path.dirname(os.path.abspath(__file__)), "..", "harness", "tgv-ide", "src", "operand_conversions.tsv")
    open(dst, "w").write("".join(out))
    print(len(out), "accepted calls written")

if __name__ == "__main__":
    main()
