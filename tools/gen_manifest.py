#!/usr/bin/env python3
"""Generates /verif/MANIFEST.json from the table below (keeps it schema-valid)."""
import json, os, subprocess, sys

ROOT = os.path.dirname(os.path.dirname(os.path.abspath(__file__)))

FORM_E = "bounded-exhaustive exploration of the implementation against a reference model / invariant (stateless small-scope model checking)"
FORM_H = "explicit-state search over operation histories of the real object with a differential oracle"
FORM_S = "stateless schedule exploration of the real server under a controlled scheduler (depth-first over all choice sequences)"

CHECKS = {
    "C01": dict(
        engine="tgv-syntax",
        technique=FORM_E + "; oracle: tree text == input and token ranges tile the input",
        text="Every input of the bounded space (all SIGMA words up to the tier's length under three joiners, all prefixes / single-token mutations / CRLF and non-ASCII variants of seeds and corpus) is parsed by the real parser and the lossless invariant is checked on each; the space is enumerated completely, so the verdict is a coverage statement, not a sample.",
        note="trusts rowan's text()/text_range(); inputs beyond the bounds are covered only by the small-scope argument",
        design="5/C01"),
    "C02": dict(
        engine="tgv-syntax",
        technique=FORM_E + "; oracle: no panic, fuel-bounded termination, linear work counters, well-formed errors",
        text="Same exhaustive space as C01 plus nesting towers of every depth 0..256 for each recursive construct, long repetition chains and unterminated openers at every token boundary; termination is decided deterministically by fuel (hook H1), not by a watchdog.",
        note="fuel ticks only at ParserBase::{lex,start_node,start_node_at,save}; work bound constant 64 nodes/token is generous (observed 4.5)",
        design="5/C02"),
}

CHECKS.update({
    "C14": dict(
        engine="tgv-syntax",
        technique=FORM_E + "; oracle: token stream equals that of an independent reference lexer written from the language reference",
        text="About a thousand spec-level token instances (each token class enumerated over its regular language to a bound, with boundary cases) are combined into every single, every ordered pair and reduced triples, joined by every separator kind with and without a trailing separator; the real lexer's (kind, range) stream must equal the by-construction stream, which is itself cross-checked against the reference lexer on every case.",
        note="reference tables follow spec/lexical.md; a reference/constructor disagreement aborts as machinery error, never as a verdict",
        design="5/C14"),
    "C15": dict(
        engine="tgv-ide",
        technique=FORM_E + "; the directive language is a small state machine enumerated whole against a stack-evaluator reference",
        text="Every directive/marker word up to the tier's length (9 symbols) is rendered one symbol per line, evaluated by a 40-line reference evaluator, and compared with the identifiers the real parser receives, the document symbols and diagnostics of the real analysis; unterminated conditionals and nameless directives must raise an error; every word also passes the C01/C02 oracles.",
        note="ill-nested words and nameless directives inside disabled regions are a stated don't-care zone",
        design="5/C15"),
})

CHECKS.update({
    "C03": dict(
        engine="tgv-ide",
        technique=FORM_E + "; oracle: every query of the full query set returns (no panic, abort, stack overflow or fuel exhaustion), subprocess-isolated",
        text="Every workspace of the bounded space (exhaustive stress menu of self/mutual references and redefinitions in one- and two-file layouts, every prefix and every single-token edit of every seed program, variants) is analysed by the real analysis on a 2 MiB stack and every query kind is issued at every offset / range of the plan; a dying worker is attributed to its case through a trace file.",
        note="quick tier thins position queries away from the edit point (every 8th token); thorough queries every offset",
        design="5/C03"),
    "C06": dict(
        engine="tgv-ide",
        technique=FORM_E + "; oracle-free invariant: definition and references are mutually consistent views of one symbol table",
        text="On the same exhaustive workspace space as C03, at every queried offset the four coherence clauses of the property are checked against an independent parse of the files (identifier tokens and their spelling).",
        note="identifier under the cursor = Id token containing the offset, else the one ending there",
        design="5/C06"),
    "C17": dict(
        engine="tgv-ide",
        technique=FORM_E + "; oracle-free invariant: every range of every result lies inside the named workspace file on character boundaries",
        text="On the C03 workspace space with CRLF and 2/3/4-byte characters injected, every range of every result of every query kind is validated against the current file texts and the workspace key set.",
        note="workspace membership = key set of diagnostics()",
        design="5/C17"),
})

CHECKS.update({
    "C07": dict(
        engine="tgv-ide",
        technique=FORM_H + "; every history up to the depth bound is executed on one live AnalysisHost and compared with a fresh host",
        text="States are (root, text variant of each of three files); transitions call the real AnalysisHost (edit keeping the root, root switch, on-disk change of an included file followed by re-selection of the root). All operation sequences up to the bound are run - not merged by state, because history-independence is the property - and after each history the complete query transcript of the live host must equal that of a host built from the final texts alone.",
        note="protocol = set_file_content then set_root_file, as the server issues it; ids mapped to paths, hash-ordered results sorted",
        design="5/C07"),
    "C16": dict(
        engine="tgv-ide",
        technique=FORM_H + " over configurations: every include graph up to the bound x every root, against a reference resolver (BFS reachability)",
        text="Every directed graph with self-loops on up to 4 files (all edge sets) and 5 files with bounded out-degree, each with every root, plus missing-target and INCLUDE_DIR variants, is built as a real workspace; termination is decided by fuel (hook H2), and workspace set, links, not-found diagnostics and single indexing are compared with the reference.",
        note="INCLUDE_DIR is set per case inside the worker; fuel 20000 ticks",
        design="5/C16"),
})

CHECKS.update({
    "C20": dict(
        engine="tgv-ide",
        technique=FORM_E + "; the completion vocabularies are finite and enumerated whole, the lexer's operator table is probed with every short word and every single-edit neighbour",
        text="Every label the real completion handler offers in each category is lexed by the real lexer and each statement keyword parsed in a minimal statement; conversely every lowercase word up to the bound, every single-edit neighbour of every known operator name and the names in the lexer source are lexed, and those accepted as operators must be offered; class completion is compared with a reference class table at every parent-class position of every stress-menu workspace and seed.",
        note="eight deviations of the offered operator list are pinned by a repository snapshot test and listed as known findings",
        design="5/C20"),
})

CHECKS.update({
    "C09": dict(
        engine="tgv-lsp",
        technique=FORM_E + " through the real server: every location in every response and publication is compared with the analysed span converted by an independent reference position mapper",
        text="All two-file workspaces of the generator (every sequence of root statements x included-file variants x ASCII/non-ASCII x LF/CRLF, with differently-lined prologues so that a wrong line table is visible) are opened in the real server over an in-memory JSON-RPC pipe; definition and references at every identifier of both files, documentSymbol, foldingRange, documentLink, inlayHint and the published diagnostics are compared location by location.",
        note="span content is taken from the ide-level analysis (judged by other properties); quiescence through hook H3 counters",
        design="5/C09"),
    "C10": dict(
        engine="tgv-lsp",
        technique=FORM_E + ", fully exhaustive as quantified: all strings up to the length bound over the 9-symbol alphabet x all offsets x all positions, against a reference mapper written from the LSP specification",
        text="Every string up to the bound over {a, space, LF, CR, 2/3/4-byte characters, FF, U+2028} is converted at every character-boundary offset and at every (line, column) up to one past each line end by the real to_proto/from_proto functions and compared with the reference; round trips must be the identity and nothing may panic.",
        note="lines beyond the last and columns inside a surrogate pair are not demanded",
        design="5/C10"),
    "C11": dict(
        engine="tgv-lsp",
        technique=FORM_H + " of the real server: every session up to the depth bound, driven to quiescence, compared with a reference session model; plus stateless schedule exploration (C08's controlled scheduler and lock model, hooks H3/H4) of every short notification scenario with the publication-order oracle",
        text="Every session of didOpen/didChange messages up to the bound over two documents x seven texts (clean; a syntax error; the same fault at one byte offset on two different lines; including the other document with the statement at two places; including a faulty on-disk file) and a third document (that faulty file with an empty buffer) is played against the real server; after the last message the latest publication per URI must equal the diagnostics of the final state (empty for files outside it) and versions per URI must not decrease. In addition every schedule of every scenario of up to 2 (thorough: 3) open/change notifications after the first open is executed: per file the versions of the publications, in the order they are sent, never decrease.",
        note="sessions are sequential; the schedule stratum covers publication order only (liveness under schedules is C08's verdict)",
        design="5/C11"),
    "C12": dict(
        engine="tgv-lsp",
        technique=FORM_H + " of the real server with editor text differing from disk text, against the reference session model (disk overlaid by open buffers)",
        text="Every session up to the bound over a root and an included document whose editor texts and on-disk texts declare differently named classes is played against the real server; after every message the latest publications and the documentSymbol response of every open document must be those of the overlay model.",
        note="file system = directory written by the harness",
        design="5/C12"),
})

CHECKS.update({
    "C08": dict(
        engine="tgv-lsp",
        technique=FORM_S + "; deadlock = a parked thread exists and none is enabled by the lock model; state matching on (program counters, lock model)",
        text="The real Server router, real salsa and the real tokio blocking pool are run with every thread parked at every schedule point (hook H3: message start, file-table lock wants, salsa input writes, task start). A controller resumes one enabled thread at a time and a depth-first search executes every choice sequence of every scenario didOpen ; m2 [; m3 [; m4]]; every request must produce a response and every notification its publications.",
        note="unhooked locks are assumed to be leaf locks; the lock model is asserted against reality on every acquisition; handlers are straight-line between schedule points, which justifies not re-expanding an expanded state",
        design="5/C08"),
})

CHECKS.update({
    "C05": dict(
        engine="tgv-ide",
        technique=FORM_E + " over a program model: the expected use->declaration map is known by construction from a reference implementation of the scoping rules",
        text="Every admissible nesting path of scope-opening constructs up to the depth bound x every use position x both layouts is emitted from an AST by a printer that records, per identifier occurrence, the declaration TableGen's lookup order binds it to; the well-scoped variant (unresolvable probes replaced) is judged on go-to-definition at every offset of every use and on references of every declaration, the full variant on every out-of-scope use (must not resolve, must be reported as not found exactly on the use).",
        note="positions the property leaves undefined are generated but not judged (listed in the evidence assumptions)",
        design="5/C05"),
})

CHECKS.update({
    "C18": dict(
        engine="tgv-ide",
        technique=FORM_E + " over the program model: the expected outline and folding ranges are recorded by the emitter while it prints the program",
        text="Every declaration variant (optional parts present and absent, anonymous forms, defsets with members, multiclasses) inside every wrapper path of block-bearing statements up to the depth bound, in one- and two-file layouts, plus the C05 scope programs; document symbols (ordered, kinds, names, identifier ranges, children) and folding ranges (bijection with statements, first token to last non-trivia token, nested or disjoint) are compared with the construction.",
        note="literal reading of the statement: named defs inside foreach/let/if/multiclass bodies are top-level entries in source order",
        design="5/C18"),
    "C19": dict(
        engine="tgv-ide",
        technique=FORM_E + " over the program model: hover facts (kind, name, declared type, attached doc lines) and inlay hints are known by construction",
        text="Programs with every doc-comment shape (0..2 lines, attached or detached) on every declaration kind that can carry one and class references with every positional/named argument count in every reference position; hover is requested at every offset of every resolved identifier and inlay hints for the whole file and for token-boundary sub-ranges (every one in the thorough tier).",
        note="inferred variable types are not judged; a hint is inside a range when start <= position <= end",
        design="5/C19"),
})

CHECKS.update({
    "C13": dict(
        engine="tgv-ide",
        technique=FORM_E + " over well-typed programs built by construction, and exhaustive single-fault seeding at every recorded site",
        text="Valid programs (library + feature groups covering every construct of the core and one call of every operator form, alone, in pairs, all together, inside block wrappers, one- and two-file) must have no diagnostics at all; then every single fault of the classes the property lists is seeded at every eligible site recorded by the emitter and must produce a diagnostic covering the site in the seeded file and none in untouched files. The thorough tier audits the generator against llvm-tblgen 14 on the expressible subset (a disagreement is a machinery error, never a verdict).",
        note="validity is by construction against the Programmer's Reference, audited with llvm-tblgen 14 where expressible",
        design="5/C13"),
})

CHECKS.update({
    "C04": dict(
        engine="tgv-syntax",
        technique=FORM_E + "; the documented grammar is data (two BNF files), sentences are enumerated exhaustively by derivation, non-sentences are decided by an independent Earley recogniser over token kinds",
        text="Every derivation of the narrow grammar G_gen below the stratum bounds is rendered, parsed by the real parser (zero errors required) and compared, constituent by constituent in source order, with the tree obtained by calling only the typed accessors; every token-kind word up to the length bound and every single (thorough: double) token mutation of the short sentences is classified by Earley recognisers of G_gen and of the wide grammar G_rec - inside G_gen no error may be reported, outside G_rec at least one must be; all seed and real-world corpus files must parse cleanly.",
        note="G_rec minus G_gen is a stated don't-care zone, so the check never demands more than the property states whichever way the parser leans",
        design="5/C04"),
})

NOT_YET = {}

def main():
    props = [json.loads(l) for l in open(os.path.join(ROOT, "properties.jsonl"))]
    hooks_commits = subprocess.run(["git", "-C", "/repo", "log", "--format=%H %s"], capture_output=True, text=True).stdout.splitlines()
    hook_shas = [l.split()[0] for l in hooks_commits if l.split(" ", 1)[1].startswith("verif:")]
    checks = []
    na = []
    for p in props:
        pid = p["id"]
        c = CHECKS.get(pid)
        if c is None:
            na.append({"property_id": pid, "reason": NOT_YET.get(pid, "check not built yet in this round; design in DESIGN.md section 5")})
            continue
        checks.append({
            "property_id": pid,
            "quick_cmd": f"./check {pid} --tier quick",
            "thorough_cmd": f"./check {pid} --tier thorough",
            "evidence_file": f"/verif/evidence/{pid}.json",
            "replay_cmd_template": "./check replay {path}",
            "engine": c["engine"],
            "level_claimed": {"category": "model_checking", "text": c["text"], "design_ref": c["design"]},
            "level_note": c["note"],
            "technique": c["technique"],
        })
    m = {
        "version": 1,
        "setup_cmd": "./check setup",
        "hooks": {
            "guard": "cargo feature `verif` on crates syntax, ide, lsp",
            "enable": "the harness workspace depends on /repo/crates/* by path with features = [\"verif\"]; hooks are inert unless armed by a harness",
            "baseline_off_cmd": "cd /repo && cargo test --workspace --no-fail-fast --offline",
            "source_commits": hook_shas,
            "add_only": True,
        },
        "engines": [
            {"name": "tgv-syntax", "path": "harness/tgv-syntax", "serves_properties": ["C01", "C02", "C04", "C14", "C15"], "kind_free_text": "bounded-exhaustive input exploration of lexer/preprocessor/parser"},
            {"name": "tgv-ide", "path": "harness/tgv-ide", "serves_properties": ["C03", "C05", "C06", "C07", "C13", "C16", "C17", "C18", "C19", "C20"], "kind_free_text": "bounded-exhaustive program/workspace/history exploration of the analysis"},
            {"name": "tgv-lsp", "path": "harness/tgv-lsp", "serves_properties": ["C08", "C09", "C10", "C11", "C12"], "kind_free_text": "real server: schedule exploration, session histories, position mapping"},
        ],
        "checks": checks,
        "not_applicable": na,
        "notes": "All checks: exit 0 held / 1 VIOLATION / 2 machinery failure. Known findings live in known_findings.json.",
    }
    json.dump(m, open(os.path.join(ROOT, "MANIFEST.json"), "w"), indent=1)
    print(f"{len(checks)} checks, {len(na)} not_applicable")

if __name__ == "__main__":
    main()
