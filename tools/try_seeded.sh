#!/bin/sh
# usage: tools/try_seeded.sh <patch.diff> <tier> <ID> [<ID> ...]
# Applies a seeded change to /repo, confirms the repository suite still passes, runs the given
# checks, and restores /repo. Prints one line per check: "<ID> exit=<code>".
set -u
patch="$1"; tier="$2"; shift 2
cd /repo || exit 2
if ! git diff --quiet; then echo "/repo has uncommitted changes"; exit 2; fi
git apply --3way "$patch" 2>/dev/null || { echo "patch does not apply"; git reset -q --hard HEAD; exit 2; }
/verif/tools/repo_tests.sh
for id in "$@"; do
  out=$(cd /verif && ./check "$id" --tier "$tier" 2>&1)
  code=$?
  echo "$id exit=$code"
  echo "$out" | grep -a -E "^VIOLATION|^  clause=|MACHINERY" | head -6 | cut -c1-400
done
git -C /repo reset -q --hard HEAD
git -C /repo status --short | grep -v '^??' | head -3
