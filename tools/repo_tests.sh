#!/bin/sh
# runs the repository suite with the verif feature off and prints the number of passing tests (expected: 90)
cd /repo && CARGO_NET_OFFLINE=true cargo test --workspace --no-fail-fast --offline 2>&1 | awk '/^test result/ {p+=$4; f+=$6} END {print "passed=" p " failed=" f; if (f>0 || p!=90) exit 1}'
