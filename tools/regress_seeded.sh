#!/bin/sh
# usage: tools/regress_seeded.sh [ids...]
# Applies every seeded change (seeded/<ID>-<x>/patch.diff) to /repo in turn, runs the quick check of its
# property, restores /repo and prints one line per change: "<id> <check> detected|MISSED|not-applicable".
# The repository's own suite is not re-run here (tools/try_seeded.sh does that when a change is first confirmed).
cd /verif || exit 2
if ! git -C /repo diff --quiet; then echo "/repo has uncommitted changes"; exit 2; fi
ids="$*"
[ -z "$ids" ] && ids=$(ls seeded | grep -E '^C[0-9]+-[a-z]$' | sort)
for id in $ids; do
  p=/verif/seeded/$id/patch.diff
  prop=$(echo "$id" | cut -c1-3)
  if ! git -C /repo apply --3way "$p" 2>/dev/null; then git -C /repo reset -q --hard HEAD; echo "$id $prop patch-does-not-apply-to-current-head"; continue; fi
  out=$(./check "$prop" --tier quick 2>&1); code=$?
  git -C /repo reset -q --hard HEAD; git -C /repo clean -fdq crates 2>/dev/null
  case $code in
    1) echo "$id $prop detected $(echo "$out" | grep -a -m1 -o 'clause=[^ ]*')";;
    0) echo "$id $prop MISSED";;
    *) echo "$id $prop machinery-exit-$code";;
  esac
done
