#!/usr/bin/env python3
"""Regenerates harness/tgv-ide/src/result_conversions.tsv: (slot type, operator call) pairs that
llvm-tblgen 14 accepts at TYPE level - the operands are template parameters of a class that is
never instantiated, so nothing folds to a value. The table says which declared types the result
of each operator form may initialise (e.g. !not, !empty and !isa yield int: they fit bits<n>;
the comparisons yield bit: they do not). Data transcribed from the reference implementation;
C13's thorough tier audits the program built from it against llvm-tblgen again.
Needs llvm-tblgen; not run by any check."""
import os, subprocess, tempfile

OPS = ["!add(pi, pi)", "!sub(pi, pi)", "!mul(pi, pi)", "!and(pi, pi)", "!or(pi, pi)", "!xor(pi, pi)", "!shl(pi, pi)", "!sra(pi, pi)", "!srl(pi, pi)", "!not(pi)",
       "!eq(pi, pi)", "!ne(pi, pi)", "!lt(pi, pi)", "!le(pi, pi)", "!gt(pi, pi)", "!ge(pi, pi)", "!eq(ps, ps)",
       "!if(pb, pi, pi)", "!if(pb, ps, ps)", "!if(pb, pb, pb)", "!if(pb, p2, p2)", "!cond(pb: pi, 1: pi)",
       "!strconcat(ps, ps)", "!substr(ps, pi)", "!find(ps, ps)", "!subst(ps, ps, ps)",
       "!size(pli)", "!size(ps)", "!empty(pli)", "!empty(ps)", "!head(pli)", "!tail(pli)", "!listconcat(pli, pli)", "!listsplat(pi, pi)",
       "!interleave(pls, ps)", "!interleave(pli, ps)", "!foreach(e, pli, !add(e, 1))", "!filter(e, pli, !gt(e, 1))", "!foldl(pi, pli, acc, e, !add(acc, e))",
       "!cast<string>(pi)", "!isa<A>(pa)", "p2{0}", "p2{1-0}", "pli[0]", "pa.f", "!head(plb)", "!if(pb, plb, pli)"]
TARGETS = ["bit", "int", "string", "code", "bits<1>", "bits<2>", "bits<8>", "list<int>", "list<bit>", "list<bits<1>>", "list<string>", "list<code>", "dag", "A"]
PRE = "class A<int p = 0> { int f = p; }\n"
PARAMS = "int pi, bit pb, bits<2> p2, string ps, list<int> pli, list<bit> plb, list<string> pls, A pa"

def main():
    out = []
    with tempfile.TemporaryDirectory() as d:
        path = os.path.join(d, "t.td")
        for e in OPS:
            for t in TARGETS:
                open(path, "w").write(PRE + f"class C<{PARAMS}> {{ {t} r = {e}; }}\n")
                if subprocess.run(["llvm-tblgen", path], capture_output=True).returncode == 0:
                    out.append(f"{t}\t{e}\n")
    dst = os.path.join(os.path.dirname(os.path.abspath(__file__)), "..", "harness", "tgv-ide", "src", "result_conversions.tsv")
    open(dst, "w").write("".join(out))
    print(len(out), "accepted (slot type, call) pairs written")

if __name__ == "__main__":
    main()
