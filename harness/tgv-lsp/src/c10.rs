//! C10 — position mapping: byte offsets and LSP positions convert exactly.

use async_lsp::lsp_types::Position;
use ide::line_index::LineIndex;
use text_size::TextSize;
use tgv_core::{guard, json, words, Ctx, Engine, Failure, Tier, Value};

use crate::refpos::RefLines;

pub struct C10;

pub const SYMS: &[&str] = &["a", " ", "\n", "\r", "é", "€", "😀", "\u{c}", "\u{2028}", "\u{feff}"];

/// Line patterns of the long texts (the line table is a rope: texts longer than one of its chunks).
pub const LONG_LINES: &[&str] = &["aé😀 €\n", "ab\r\n", "😀😀😀😀\r", "aaaaaaaaaaaaaaaaaaaaaaaaaaaaaaaaaaaaaaaaaaaaaaaaaaaaaaaaaaaaaaaaaaaaaaaaaaaaaaaaaaaaaaaaaaaaaaaaaaa€\n", "a€", "abcdefgh\n"];
pub const LONG_LEADS: &[&str] = &["", "é", "😀\n", "// é\r\n"];

/// lead + first pattern up to half of `n` bytes + second pattern up to `n` bytes (whole characters).
pub fn long_text(lead: usize, first: usize, second: usize, n: usize) -> String {
    let mut t = String::from(LONG_LEADS[lead]);
    let fill = |t: &mut String, pat: &str, upto: usize| {
        'outer: loop {
            for c in pat.chars() {
                if t.len() + c.len_utf8() > upto {
                    break 'outer;
                }
                t.push(c);
            }
        }
    };
    fill(&mut t, LONG_LINES[first], n / 2);
    fill(&mut t, LONG_LINES[second], n);
    t
}

/// Total lengths around one, two and four rope chunks, in steps that move every line across the chunk borders.
pub fn long_lengths(tier: Tier) -> Vec<usize> {
    let step = match tier {
        Tier::Quick => 13,
        Tier::Thorough => 3,
    };
    let mut v: Vec<usize> = Vec::new();
    for (lo, hi) in [(900, 1120), (1900, 2120), (3950, 4100)] {
        v.extend((lo..hi).step_by(step));
    }
    v
}

/// The checks of `check` for a long text: every boundary offset both ways, every position of every line,
/// the ranges from the start of the text, from the start of the line and from the previous boundary.
fn check_long(text: &str) -> Vec<(&'static str, String)> {
    let mut out: Vec<(&'static str, String)> = Vec::new();
    let reference = RefLines::new(text);
    let li = match guard(|| LineIndex::new(text)) {
        Ok(li) => li,
        Err(p) => return vec![("panic", format!("LineIndex::new: {} at {}", p.message, p.location))],
    };
    let push = |out: &mut Vec<(&'static str, String)>, c: &'static str, d: String| {
        if !out.iter().any(|(cc, _)| *cc == c) {
            out.push((c, d));
        }
    };
    let offs: Vec<usize> = text.char_indices().map(|(o, _)| o).chain(std::iter::once(text.len())).filter(|o| !RefLines::inside_crlf(text, *o)).collect();
    let mut prev = 0usize;
    for &o in &offs {
        let want = reference.position(text, o);
        match guard(|| lsp::to_proto::position(&li, TextSize::from(o as u32))) {
            Err(p) => push(&mut out, "to-position-panic", format!("offset {o}: {} at {}", p.message, p.location)),
            Ok(got) => {
                if (got.line, got.character) != want {
                    push(&mut out, "to-position", format!("offset {o}: expected line {} column {}, got line {} column {}", want.0, want.1, got.line, got.character));
                }
            }
        }
        match guard(|| lsp::from_proto::position(&li, Position::new(want.0, want.1))) {
            Err(p) => push(&mut out, "from-position-panic", format!("line {} column {}: {} at {}", want.0, want.1, p.message, p.location)),
            Ok(back) => {
                if usize::from(back) != o {
                    push(&mut out, "from-position", format!("line {} column {}: expected offset {o}, got {}", want.0, want.1, usize::from(back)));
                }
            }
        }
        let line_start = reference.lines[want.0 as usize].0;
        for a in [0, line_start, prev] {
            let r = syntax::parser::TextRange::new(TextSize::from(a as u32), TextSize::from(o as u32));
            let (ws, we) = (reference.position(text, a), want);
            match guard(|| lsp::to_proto::range(&li, r)) {
                Err(p) => push(&mut out, "to-range-panic", format!("range {a}..{o}: {} at {}", p.message, p.location)),
                Ok(got) => {
                    if (got.start.line, got.start.character, got.end.line, got.end.character) != (ws.0, ws.1, we.0, we.1) {
                        push(&mut out, "to-range", format!("range {a}..{o}: expected {ws:?}..{we:?}, got {:?}..{:?}", (got.start.line, got.start.character), (got.end.line, got.end.character)));
                    }
                }
            }
        }
        prev = o;
    }
    // one column past every line end
    for line in 0..reference.lines.len() {
        let len16 = reference.line_len_utf16(text, line);
        let Some(want) = reference.offset(text, line as u32, len16 + 1) else { continue };
        match guard(|| lsp::from_proto::position(&li, Position::new(line as u32, len16 + 1))) {
            Err(p) => push(&mut out, "from-position-panic", format!("line {line} column {}: {} at {}", len16 + 1, p.message, p.location)),
            Ok(got) => {
                if usize::from(got) != want {
                    push(&mut out, "column-past-line-end", format!("line {line} column {}: expected offset {want}, got {}", len16 + 1, usize::from(got)));
                }
            }
        }
    }
    out
}

fn check(text: &str) -> Vec<(&'static str, String)> {
    if text.len() > 64 {
        return check_long(text);
    }
    let mut out: Vec<(&'static str, String)> = Vec::new();
    let reference = RefLines::new(text);
    let li = match guard(|| LineIndex::new(text)) {
        Ok(li) => li,
        Err(p) => return vec![("panic", format!("LineIndex::new: {} at {}", p.message, p.location))],
    };
    let mut push = |out: &mut Vec<(&'static str, String)>, c: &'static str, d: String| {
        if !out.iter().any(|(cc, _)| *cc == c) {
            out.push((c, d));
        }
    };
    // offset -> position -> offset
    for (o, _) in text.char_indices().chain(std::iter::once((text.len(), ' '))) {
        if RefLines::inside_crlf(text, o) {
            continue;
        }
        let want = reference.position(text, o);
        match guard(|| lsp::to_proto::position(&li, TextSize::from(o as u32))) {
            Err(p) => push(&mut out, "to-position-panic", format!("offset {o}: {} at {}", p.message, p.location)),
            Ok(got) => {
                if (got.line, got.character) != want {
                    push(&mut out, "to-position", format!("offset {o}: expected line {} column {}, got line {} column {}", want.0, want.1, got.line, got.character));
                }
                match guard(|| lsp::from_proto::position(&li, got)) {
                    Err(p) => push(&mut out, "round-trip-panic", format!("offset {o} -> {got:?}: {} at {}", p.message, p.location)),
                    Ok(back) => {
                        if usize::from(back) != o && (got.line, got.character) == want {
                            push(&mut out, "round-trip", format!("offset {o} -> {got:?} -> offset {}", usize::from(back)));
                        }
                    }
                }
            }
        }
    }
    // every range between two character boundaries: the pair of its end points' positions, and back
    let offs: Vec<usize> = text.char_indices().map(|(o, _)| o).chain(std::iter::once(text.len())).filter(|o| !RefLines::inside_crlf(text, *o)).collect();
    for (k, &a) in offs.iter().enumerate() {
        for &b in &offs[k..] {
            let r = syntax::parser::TextRange::new(TextSize::from(a as u32), TextSize::from(b as u32));
            let (ws, we) = (reference.position(text, a), reference.position(text, b));
            match guard(|| lsp::to_proto::range(&li, r)) {
                Err(p) => push(&mut out, "to-range-panic", format!("range {a}..{b}: {} at {}", p.message, p.location)),
                Ok(got) => {
                    if (got.start.line, got.start.character, got.end.line, got.end.character) != (ws.0, ws.1, we.0, we.1) {
                        push(&mut out, "to-range", format!("range {a}..{b}: expected {ws:?}..{we:?}, got {:?}..{:?}", (got.start.line, got.start.character), (got.end.line, got.end.character)));
                    }
                }
            }
        }
    }
    // position -> offset, including one column past every line end
    for line in 0..reference.lines.len() {
        let len16 = reference.line_len_utf16(text, line);
        for col in 0..=len16 + 1 {
            let Some(want) = reference.offset(text, line as u32, col) else { continue };
            match guard(|| lsp::from_proto::position(&li, Position::new(line as u32, col))) {
                Err(p) => push(&mut out, "from-position-panic", format!("line {line} column {col}: {} at {}", p.message, p.location)),
                Ok(got) => {
                    if usize::from(got) != want {
                        let clause = if col > len16 { "column-past-line-end" } else { "from-position" };
                        push(&mut out, clause, format!("line {line} column {col}: expected offset {want}, got {}", usize::from(got)));
                    }
                }
            }
        }
    }
    out
}

fn esc(text: &str) -> String {
    text.chars()
        .map(|c| match c {
            '\n' => "\\n".to_string(),
            '\r' => "\\r".to_string(),
            '\u{c}' => "\\f".to_string(),
            '\u{2028}' => "\\u2028".to_string(),
            '\u{feff}' => "\\ufeff".to_string(),
            c => c.to_string(),
        })
        .collect()
}

fn failures(text: &str) -> Vec<Failure> {
    check(text)
        .into_iter()
        .map(|(c, d)| Failure::new(c, esc(text), d, json!({ "text": text })))
        .collect()
}

impl Engine for C10 {
    fn id(&self) -> &'static str {
        "C10"
    }

    fn rule(&self, tier: Tier) -> String {
        format!(
            "every string of length <= {} over {{a, space, LF, CR, é (2 bytes), € (3 bytes), 😀 (4 bytes, 2 UTF-16 units), FF, U+2028, U+FEFF}} x every character-boundary offset (except inside a CRLF pair) \
             x every (line, column) with line <= last line and column <= line length + 1 (except columns inside a surrogate pair). non-trivial = the string contains a line terminator or a non-ASCII character; strings distinct by construction. \
             Long texts (the line table is a rope of chunks of about 1 KB): {} leads x {} x {} line patterns (first half, second half; LF / CRLF / CR / no terminator, 1- to 4-byte characters, a 100-byte line) x {} total lengths around 1, 2 and 4 KB: every boundary offset both ways, one column past every line end, the ranges from the text start, the line start and the previous boundary.",
            tier.pick(5, 7),
            LONG_LEADS.len(),
            LONG_LINES.len(),
            LONG_LINES.len(),
            long_lengths(tier).len()
        )
    }

    fn assumptions(&self) -> Vec<String> {
        vec![
            "reference mapper follows the LSP 3.17 specification: line terminators are exactly LF, CRLF, CR; characters are UTF-16 code units; a character beyond the line length denotes the line end".into(),
            "lines beyond the last line and columns inside a surrogate pair are not demanded (the statement is silent)".into(),
        ]
    }

    fn explore(&self, tier: Tier, ctx: &mut Ctx) {
        let mut text = String::new();
        let (shard, n) = (ctx.shard, ctx.nshards);
        // long texts first: lead x first-half pattern x second-half pattern x total length
        'long: for lead in 0..LONG_LEADS.len() {
            for first in 0..LONG_LINES.len() {
                for second in 0..LONG_LINES.len() {
                    for &len in &long_lengths(tier) {
                        if !ctx.mine() {
                            continue;
                        }
                        let t = long_text(lead, first, second, len);
                        ctx.trace(|| json!({ "text": &t }));
                        ctx.case(true);
                        ctx.add("long_texts", 1);
                        for f in check(&t).into_iter().map(|(c, d)| Failure::new(c, format!("a text of {} bytes: lead {:?}, lines {:?} then {:?}", t.len(), LONG_LEADS[lead], LONG_LINES[first], LONG_LINES[second]), d, json!({ "text": &t }))) {
                            ctx.fail(f);
                        }
                        if ctx.expired() {
                            break 'long;
                        }
                    }
                }
            }
        }
        words::for_each_word(SYMS.len(), tier.pick(5, 7), shard, n, |_, w| {
            text.clear();
            for &s in w {
                text.push_str(SYMS[s]);
            }
            let nontrivial = w.iter().any(|&s| s >= 2);
            ctx.trace(|| json!({ "text": &text }));
            ctx.case(nontrivial);
            if nontrivial {
                ctx.sample(|| json!(esc(&text)));
            }
            for f in failures(&text) {
                ctx.fail(f);
            }
            !ctx.expired()
        });
    }

    fn eval_case(&self, case: &Value) -> Vec<Failure> {
        failures(case["text"].as_str().unwrap_or_default())
    }

    fn shrink(&self, case: &Value, _clause: &str) -> Vec<Value> {
        let text = case["text"].as_str().unwrap_or_default();
        let chars: Vec<char> = text.chars().collect();
        let mut out: Vec<Value> = tgv_core::shrink::deletions(&chars)
            .into_iter()
            .map(|d| json!({ "text": d.into_iter().collect::<String>() }))
            .collect();
        // then replace exotic characters by plainer ones
        for i in 0..chars.len() {
            for r in ['a', '\n'] {
                if chars[i] != r && chars[i] != 'a' {
                    let mut c = chars.clone();
                    c[i] = r;
                    out.push(json!({ "text": c.into_iter().collect::<String>() }));
                }
            }
        }
        out
    }
}
