use tgv_lsp::*;

fn main() {
    tgv_ide::ws::clean_env();
    tgv_core::main_for(&[&c08::C08, &c09::C09, &c10::C10, &c11::C11, &c11::C12]);
}
