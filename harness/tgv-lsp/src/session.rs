//! The real server, in-process: `MainLoop::new_server(Server::new_router)` run
//! over an in-memory duplex pipe with framed JSON-RPC, driven one message at a
//! time to quiescence. Quiescence is observed through the H3 counters (tasks
//! spawned / ended, notifications published), never through sleeps as a
//! correctness device.

use std::path::{Path, PathBuf};
use std::sync::atomic::Ordering;
use std::time::{Duration, Instant};

use async_lsp::MainLoop;
use lsp::server::Server;
use lsp::verif::{PUBLISHED, TASKS_ENDED, TASKS_SPAWNED};
use serde_json::{json, Value};
use tokio::io::{AsyncReadExt, AsyncWriteExt, DuplexStream, ReadHalf, WriteHalf};
use tokio_util::compat::{TokioAsyncReadCompatExt, TokioAsyncWriteCompatExt};

pub const IO_TIMEOUT: Duration = Duration::from_secs(20);

#[derive(Debug)]
pub enum SessionError {
    /// the server side of the pipe closed (main loop ended or panicked)
    ServerDied(String),
    /// no progress within IO_TIMEOUT
    Stuck(String),
}

impl std::fmt::Display for SessionError {
    fn fmt(&self, f: &mut std::fmt::Formatter<'_>) -> std::fmt::Result {
        match self {
            SessionError::ServerDied(s) => write!(f, "server died: {s}"),
            SessionError::Stuck(s) => write!(f, "server stuck: {s}"),
        }
    }
}

pub struct Session {
    rt: Option<tokio::runtime::Runtime>,
    tx: WriteHalf<DuplexStream>,
    rx: ReadHalf<DuplexStream>,
    buf: Vec<u8>,
    next_id: i64,
    base_spawned: u64,
    base_ended: u64,
    base_published: u64,
    /// notifications expected to have spawned a diagnostics task so far
    pub notifications_sent: u64,
    publications_read: u64,
    /// every publishDiagnostics notification read so far, in order
    pub published: Vec<Value>,
    pub dir: PathBuf,
    /// `capabilities.positionEncoding` of the initialize result
    pub announced_encoding: Option<String>,
    pub server_requests_answered: u64,
    main: Option<tokio::task::JoinHandle<String>>,
}

/// The `file:` URI of a path as an editor sends it: every byte outside the unreserved set is percent-encoded.
pub fn uri_of(path: &Path) -> String {
    let mut out = String::from("file://");
    for b in path.to_string_lossy().bytes() {
        if b.is_ascii_alphanumeric() || matches!(b, b'-' | b'.' | b'_' | b'~' | b'/') {
            out.push(b as char);
        } else {
            out.push_str(&format!("%{b:02X}"));
        }
    }
    out
}

impl Session {
    /// Starts a server and performs the initialize handshake.
    pub fn start(dir: &Path) -> Result<Session, SessionError> {
        Session::start_with(dir, None)
    }

    /// The same for a client that lists the position encodings it supports (LSP 3.17 `general.positionEncodings`).
    pub fn start_with(dir: &Path, client_encodings: Option<&[&str]>) -> Result<Session, SessionError> {
        // the main loop runs on the harness thread (inside block_on): no cross-thread hop per message
        let rt = tokio::runtime::Builder::new_current_thread()
            .max_blocking_threads(4)
            .enable_all()
            .build()
            .expect("tokio runtime");
        let (client_end, server_end) = tokio::io::duplex(1 << 20);
        let (srx, stx) = tokio::io::split(server_end);
        let (crx, ctx) = tokio::io::split(client_end);
        let main = rt.spawn(async move {
            let (mainloop, _client) = MainLoop::new_server(Server::new_router);
            match mainloop.run_buffered(srx.compat(), stx.compat_write()).await {
                Ok(()) => "main loop returned Ok".to_string(),
                Err(e) => format!("main loop returned Err: {e}"),
            }
        });
        let mut s = Session {
            rt: Some(rt),
            tx: ctx,
            rx: crx,
            buf: Vec::new(),
            next_id: 1,
            base_spawned: TASKS_SPAWNED.load(Ordering::SeqCst),
            base_ended: TASKS_ENDED.load(Ordering::SeqCst),
            base_published: PUBLISHED.load(Ordering::SeqCst),
            notifications_sent: 0,
            publications_read: 0,
            published: Vec::new(),
            dir: dir.to_path_buf(),
            announced_encoding: None,
            server_requests_answered: 0,
            main: Some(main),
        };
        // an editor that supports everything a server may ask a client for
        let mut capabilities = crate::c08::full_client_capabilities();
        match client_encodings {
            Some(list) => capabilities["general"] = json!({ "positionEncodings": list }),
            None => capabilities["general"] = json!({}),
        }
        let result = s.request("initialize", json!({ "capabilities": capabilities, "processId": null, "rootUri": null }))?;
        s.announced_encoding = result["capabilities"]["positionEncoding"].as_str().map(|x| x.to_string());
        s.send(json!({ "jsonrpc": "2.0", "method": "initialized", "params": {} }))?;
        Ok(s)
    }

    pub fn uri(&self, name: &str) -> String {
        uri_of(&self.dir.join(name))
    }

    fn send(&mut self, msg: Value) -> Result<(), SessionError> {
        let body = msg.to_string();
        let frame = format!("Content-Length: {}\r\n\r\n{}", body.len(), body);
        let tx = &mut self.tx;
        self.rt
            .as_ref()
            .unwrap()
            .block_on(async {
                tokio::time::timeout(IO_TIMEOUT, async {
                    tx.write_all(frame.as_bytes()).await?;
                    tx.flush().await
                })
                .await
            })
            .map_err(|_| SessionError::Stuck("write to the server timed out".into()))?
            .map_err(|e| SessionError::ServerDied(format!("write failed: {e}")))
    }

    /// Reads one framed message, waiting at most `timeout`. Ok(None) = nothing arrived in time.
    fn read_frame(&mut self, timeout: Duration) -> Result<Option<Value>, SessionError> {
        let deadline = Instant::now() + timeout;
        loop {
            if let Some((msg, used)) = parse_frame(&self.buf) {
                self.buf.drain(..used);
                return Ok(Some(msg));
            }
            let left = deadline.saturating_duration_since(Instant::now());
            if left.is_zero() {
                return Ok(None);
            }
            let rx = &mut self.rx;
            let mut chunk = [0u8; 8192];
            let r = self.rt.as_ref().unwrap().block_on(async { tokio::time::timeout(left, rx.read(&mut chunk)).await });
            match r {
                Err(_) => return Ok(None),
                Ok(Ok(0)) => {
                    let why = match self.main.take() {
                        Some(h) => match self.rt.as_ref().unwrap().block_on(async { tokio::time::timeout(Duration::from_secs(2), h).await }) {
                            Ok(Ok(s)) => s,
                            Ok(Err(e)) => format!("main loop task failed: {e}"),
                            Err(_) => "main loop still running but the pipe closed".to_string(),
                        },
                        None => "pipe closed".to_string(),
                    };
                    return Err(SessionError::ServerDied(why));
                }
                Ok(Ok(n)) => self.buf.extend_from_slice(&chunk[..n]),
                Ok(Err(e)) => return Err(SessionError::ServerDied(format!("read failed: {e}"))),
            }
        }
    }

    fn absorb(&mut self, msg: Value) -> Option<Value> {
        if let (Some(id), Some(_)) = (msg.get("id"), msg.get("method")) {
            // a request of the server (refresh, registration, configuration ...): answered like an editor does,
            // when the client gets round to reading it
            let _ = self.send(json!({ "jsonrpc": "2.0", "id": id, "result": null }));
            self.server_requests_answered += 1;
            return None;
        }
        if msg.get("method").and_then(|m| m.as_str()) == Some("textDocument/publishDiagnostics") {
            self.publications_read += 1;
            self.published.push(msg["params"].clone());
            None
        } else {
            Some(msg)
        }
    }

    /// Sends a request and waits for its response; returns the `result` (or `{"error":..}`).
    pub fn request(&mut self, method: &str, params: Value) -> Result<Value, SessionError> {
        let t0 = Instant::now();
        let r = self.request_inner(method, params);
        if std::env::var("TGV_TIMING").is_ok() {
            eprintln!("  {method} {:?}", t0.elapsed());
        }
        r
    }

    fn request_inner(&mut self, method: &str, params: Value) -> Result<Value, SessionError> {
        let id = self.next_id;
        self.next_id += 1;
        self.send(json!({ "jsonrpc": "2.0", "id": id, "method": method, "params": params }))?;
        let deadline = Instant::now() + IO_TIMEOUT;
        loop {
            let left = deadline.saturating_duration_since(Instant::now());
            if left.is_zero() {
                return Err(SessionError::Stuck(format!("no response to {method} (id {id}) within {IO_TIMEOUT:?}")));
            }
            let Some(msg) = self.read_frame(left)? else { continue };
            if let Some(msg) = self.absorb(msg) {
                if msg.get("id").and_then(|i| i.as_i64()) == Some(id) && msg.get("method").is_none() {
                    if let Some(e) = msg.get("error") {
                        return Ok(json!({ "error": e }));
                    }
                    return Ok(msg.get("result").cloned().unwrap_or(Value::Null));
                }
            }
        }
    }

    /// didOpen / didChange
    pub fn did_open(&mut self, name: &str, text: &str) -> Result<(), SessionError> {
        let uri = self.uri(name);
        self.send(json!({ "jsonrpc": "2.0", "method": "textDocument/didOpen", "params": {
            "textDocument": { "uri": uri, "languageId": "tablegen", "version": 1, "text": text } } }))?;
        self.notifications_sent += 1;
        Ok(())
    }

    /// didOpen with an explicit version (a re-opened tab starts counting again)
    pub fn did_open_versioned(&mut self, name: &str, text: &str, version: i64) -> Result<(), SessionError> {
        let uri = self.uri(name);
        self.send(json!({ "jsonrpc": "2.0", "method": "textDocument/didOpen", "params": {
            "textDocument": { "uri": uri, "languageId": "tablegen", "version": version, "text": text } } }))?;
        self.notifications_sent += 1;
        Ok(())
    }

    pub fn did_close(&mut self, name: &str) -> Result<(), SessionError> {
        let uri = self.uri(name);
        self.send(json!({ "jsonrpc": "2.0", "method": "textDocument/didClose", "params": { "textDocument": { "uri": uri } } }))
    }

    pub fn did_change(&mut self, name: &str, text: &str, version: i64) -> Result<(), SessionError> {
        let uri = self.uri(name);
        self.send(json!({ "jsonrpc": "2.0", "method": "textDocument/didChange", "params": {
            "textDocument": { "uri": uri, "version": version }, "contentChanges": [ { "text": text } ] } }))?;
        self.notifications_sent += 1;
        Ok(())
    }

    /// Waits until every message sent so far has been dispatched by the main loop, every task
    /// spawned so far has ended and every publication has been read.
    ///
    /// The barrier is a request of a method the server does not know: the main loop dispatches
    /// messages in order and answers it itself (method not found, no task), so its response proves
    /// that the handlers of all earlier notifications have run - whether or not they chose to
    /// start a diagnostics task.
    pub fn quiesce(&mut self) -> Result<(), SessionError> {
        let r = self.request_inner("tgv/barrier", json!({}))?;
        if r.get("error").is_none() {
            return Err(SessionError::Stuck(format!("the barrier request was answered with a result: {r}")));
        }
        let deadline = Instant::now() + IO_TIMEOUT;
        loop {
            let spawned = TASKS_SPAWNED.load(Ordering::SeqCst) - self.base_spawned;
            let ended = TASKS_ENDED.load(Ordering::SeqCst) - self.base_ended;
            let published = PUBLISHED.load(Ordering::SeqCst) - self.base_published;
            if ended == spawned && self.publications_read >= published {
                return Ok(());
            }
            if Instant::now() >= deadline {
                return Err(SessionError::Stuck(format!(
                    "not quiescent after {IO_TIMEOUT:?}: tasks spawned {spawned}, ended {ended}, published {published}, read {}",
                    self.publications_read
                )));
            }
            if let Some(msg) = self.read_frame(Duration::from_millis(2))? {
                self.absorb(msg);
            }
        }
    }

    /// Latest publication per URI.
    pub fn latest_publications(&self) -> std::collections::BTreeMap<String, Value> {
        let mut m = std::collections::BTreeMap::new();
        for p in &self.published {
            m.insert(p["uri"].as_str().unwrap_or_default().to_string(), p.clone());
        }
        m
    }
}

impl Drop for Session {
    fn drop(&mut self) {
        if let Some(h) = self.main.take() {
            h.abort();
        }
        // never wait for blocking tasks: under a deadlock they would never finish
        if let Some(rt) = self.rt.take() {
            rt.shutdown_background();
        }
    }
}

fn parse_frame(buf: &[u8]) -> Option<(Value, usize)> {
    let hdr_end = buf.windows(4).position(|w| w == b"\r\n\r\n")?;
    let headers = std::str::from_utf8(&buf[..hdr_end]).ok()?;
    let len: usize = headers
        .lines()
        .find_map(|l| l.strip_prefix("Content-Length:").map(|v| v.trim().parse().ok()))
        .flatten()?;
    let start = hdr_end + 4;
    if buf.len() < start + len {
        return None;
    }
    let v = serde_json::from_slice(&buf[start..start + len]).ok()?;
    Some((v, start + len))
}

/// Writes workspace files under a fresh directory.
pub fn write_files(dir: &Path, files: &[(String, String)]) {
    let _ = std::fs::remove_dir_all(dir);
    std::fs::create_dir_all(dir).expect("create session dir");
    for (name, text) in files {
        let path = dir.join(name);
        if let Some(parent) = path.parent() {
            std::fs::create_dir_all(parent).expect("create session subdirectory");
        }
        std::fs::write(path, text).expect("write session file");
    }
}
