//! C09 — location fidelity: every range the real server sends, interpreted
//! against the text of the document it names, is the span the analysis computed.

use std::collections::BTreeMap;
use std::path::PathBuf;

use ide::file_system::{FileId, FilePosition, FileRange};
use ide::handlers::document_symbol::DocumentSymbol;
use syntax::parser::{TextRange, TextSize};
use tgv_core::runner::root;
use tgv_core::{guard, json, Ctx, Engine, Failure, Tier, Value};
use tgv_ide::c06::id_tokens;
use tgv_ide::ws::Ws;

use crate::refpos::{RefLines, Unit};
use crate::session::{uri_of, write_files, Session, SessionError};

pub struct C09;

#[derive(Debug, Clone)]
pub struct LspWs {
    /// (file name, text); the first is the root
    pub files: Vec<(String, String)>,
    /// index into CLIENT_ENCODINGS: what the client lists in `general.positionEncodings`
    pub client_encodings: usize,
}

/// What a client may list as the position encodings it supports, in order of preference.
pub const CLIENT_ENCODINGS: &[Option<&[&str]>] = &[None, Some(&["utf-8", "utf-16"]), Some(&["utf-16", "utf-8"]), Some(&["utf-32", "utf-16"]), Some(&["utf-16"])];

impl LspWs {
    pub fn to_json(&self) -> Value {
        json!({ "files": self.files, "client_encodings": self.client_encodings, "witness": self.witness() })
    }
    pub fn from_json(v: &Value) -> LspWs {
        LspWs {
            files: v["files"]
                .as_array()
                .map(|a| a.iter().map(|p| (p[0].as_str().unwrap_or_default().to_string(), p[1].as_str().unwrap_or_default().to_string())).collect())
                .unwrap_or_default(),
            client_encodings: v["client_encodings"].as_u64().unwrap_or(0) as usize % CLIENT_ENCODINGS.len(),
        }
    }
    pub fn witness(&self) -> String {
        let files = self.files.iter().map(|(n, t)| format!("{n}: {}", t.replace('\r', "\\r").replace('\n', "\\n"))).collect::<Vec<_>>().join(" | ");
        match CLIENT_ENCODINGS[self.client_encodings] {
            None => files,
            Some(list) => format!("client positionEncodings {list:?} | {files}"),
        }
    }
    pub fn shrink(&self) -> Vec<LspWs> {
        let mut out = Vec::new();
        for i in 0..self.files.len() {
            for t in tgv_core::shrink::text_deletions(&self.files[i].1) {
                let mut c = self.clone();
                c.files[i].1 = t;
                out.push(c);
            }
        }
        out
    }
}

pub const B_ITEMS: &[&str] = &[
    "class B0;",
    "class B1<int p> { int f = p; }",
    "class B2 : B1<1> { let f = 2; }",
    "multiclass MB<int q> { def _x : B1<q>; }",
    "def db : B1<3>;",
    "defset list<B1> sb = { def dc : B1<8>; }",
];

pub const A_ITEMS: &[&str] = &[
    "class A0 : B0;",
    "def da : B1<4> { let f = 5; }",
    "defm ma : MB<6>;",
    "def ea { int g = db.f; string s = \"str\"; }",
    "class A1<B0 v> { B1 w = B1<7>; }",
    "foreach i = [1, 2] in def fa#i : B2;",
    "class A2 { int h = 1; }\ndef ha : A2 { let h = 2; }",
    "def bad : Missing;",
    // a diagnostic whose span covers a string literal (non-ASCII in the non-ASCII encoding)
    "def tm { int g = \"str\"; }",
];

fn encode(text: &str, nonascii: bool, crlf: bool) -> String {
    let mut t = String::new();
    for line in text.lines() {
        if nonascii && !line.starts_with("include") && !line.starts_with("//") && !line.starts_with("/*") && !line.starts_with(' ') {
            t.push_str("/*é😀*/ ");
        }
        t.push_str(&if nonascii { line.replace("\"str\"", "\"é😀\"") } else { line.to_string() });
        t.push('\n');
    }
    if crlf {
        t = t.replace('\n', "\r\n");
    }
    t
}

pub fn workspaces(tier: Tier, mut f: impl FnMut(LspWs) -> bool) {
    // b: all items, or all but one
    let mut b_variants: Vec<Vec<&str>> = vec![B_ITEMS.to_vec()];
    for skip in 0..B_ITEMS.len() {
        b_variants.push(B_ITEMS.iter().enumerate().filter(|(i, _)| *i != skip).map(|(_, s)| *s).collect());
    }
    // b includes the root back (a cycle through the document the editor holds): the include walk reaches the
    // edited document again
    let mut cyclic = B_ITEMS.to_vec();
    cyclic.push("include \"a.td\"");
    b_variants.push(cyclic);
    let n = A_ITEMS.len();
    let max_len = tier.pick(2, 3);
    let mut word = Vec::new();
    for bv in &b_variants {
        let total = tgv_core::words::count_upto(n as u64, max_len);
        for idx in 1..total {
            tgv_core::words::decode(idx, n as u64, max_len, &mut word);
            for nonascii in [false, true] {
                for crlf in [false, true] {
                    // with and without a line terminator after the last token (a span that ends at the end of the text)
                    for final_newline in [true, false] {
                        let a_body: String = word.iter().map(|&i| A_ITEMS[i]).collect::<Vec<_>>().join("\n");
                        // the second include names a file with a blank and non-ASCII letters: its link span covers them
                        // (in one quarter of the workspaces the first include takes a detour through a subdirectory:
                        // the same file under another spelling, one identity)
                        let b_path = if nonascii && crlf { "sub/../b.td" } else { "b.td" };
                        let a = format!("// root\ninclude \"{b_path}\"\ninclude \"c é😀.td\"\n{a_body}\n");
                        let b = format!("// b line 1\n// b line 2\n/* b line 3\n   b line 4 */\n\n{}\n", bv.join("\n"));
                        let (mut ta, mut tb) = (encode(&a, nonascii, crlf), encode(&b, nonascii, crlf));
                        if !final_newline {
                            // the statement being typed: no terminator, its last identifier touches the end of the text
                            ta.truncate(ta.trim_end_matches(['\r', '\n', ';']).len());
                            tb.push_str("def btail : B1<9");
                        }
                        // files saved with a byte order mark (the included one is read from disk, mark and all): for
                        // one-statement roots, b alone, a alone, both
                        if word.len() == 1 {
                            for bom in 1..4u8 {
                                let mark = |on: bool, t: &String| if on { format!("{}{t}", '\u{feff}') } else { t.clone() };
                                let ws = LspWs { files: vec![("a.td".into(), mark(bom & 2 != 0, &ta)), ("b.td".into(), mark(bom & 1 != 0, &tb)), ("c é😀.td".into(), "\u{feff}class Cx;\n".into()), ("sub/keep.td".into(), "// keeps the subdirectory on disk\n".into())], client_encodings: 0 };
                                if !f(ws) {
                                    return;
                                }
                            }
                        }
                        // the units differ on lines with non-ASCII text only: every client list there, no list elsewhere
                        let lists: &[usize] = match (nonascii, tier) {
                            (false, _) => &[0],
                            (true, Tier::Quick) => &[0, 1, 3],
                            (true, Tier::Thorough) => &[0, 1, 2, 3, 4],
                        };
                        for &client_encodings in lists {
                            let ws = LspWs { files: vec![("a.td".into(), ta.clone()), ("b.td".into(), tb.clone()), ("c é😀.td".into(), "class Cx;\n".into()), ("sub/keep.td".into(), "// keeps the subdirectory on disk\n".into())], client_encodings };
                            if !f(ws) {
                                return;
                            }
                        }
                    }
                }
            }
        }
    }
}

/// Reference conversion of an analysis range into the JSON the server must send.
pub struct Mapper {
    pub texts: BTreeMap<String, (String, RefLines)>,
    /// the unit of columns: the one the server announced in its initialize result (UTF-16 if none)
    pub unit: Unit,
}

impl Mapper {
    pub fn new(files: &[(String, String)]) -> Mapper {
        Mapper { texts: files.iter().map(|(p, t)| (p.clone(), (t.clone(), RefLines::new(t)))).collect(), unit: Unit::Utf16 }
    }
    pub fn with_unit(mut self, unit: Unit) -> Mapper {
        self.unit = unit;
        self
    }
    pub fn pos(&self, path: &str, off: usize) -> Value {
        let (t, l) = &self.texts[path];
        let (line, ch) = l.position_in(t, off.min(t.len()), self.unit);
        json!({ "line": line, "character": ch })
    }
    pub fn range(&self, path: &str, r: TextRange) -> Value {
        json!({ "start": self.pos(path, usize::from(r.start())), "end": self.pos(path, usize::from(r.end())) })
    }
    pub fn line(&self, path: &str, off: usize) -> u32 {
        let (t, l) = &self.texts[path];
        l.position(t, off.min(t.len())).0
    }
}

fn location(ws: &Ws, m: &Mapper, r: &FileRange) -> Value {
    let path = ws.fs.path_of(r.file);
    json!({ "uri": uri_of(&PathBuf::from(&path)), "range": m.range(&path, r.range) })
}

fn symbol_json(m: &Mapper, path: &str, s: &DocumentSymbol) -> Value {
    json!({ "name": s.name.to_string(), "range": m.range(path, s.range), "children": s.children.iter().map(|c| symbol_json(m, path, c)).collect::<Vec<_>>() })
}

fn strip_symbol(v: &Value) -> Value {
    json!({
        "name": v["name"],
        "range": v["range"],
        "selectionRange_equals_range": v["selectionRange"] == v["range"],
        "children": v["children"].as_array().map(|a| a.iter().map(strip_symbol).collect::<Vec<_>>()).unwrap_or_default(),
    })
}

fn expect_symbol(v: Value) -> Value {
    json!({
        "name": v["name"],
        "range": v["range"],
        "selectionRange_equals_range": true,
        "children": v["children"].as_array().map(|a| a.iter().cloned().map(expect_symbol).collect::<Vec<_>>()).unwrap_or_default(),
    })
}

fn sorted(mut v: Vec<Value>) -> Vec<Value> {
    v.sort_by_key(|x| x.to_string());
    v
}

pub fn session_dir(tag: &str, shard: u64) -> PathBuf {
    root().join(".work").join(tag).join(format!("w{shard}"))
}

/// Runs one workspace through the real server and compares every location it sends.
pub fn eval_ws(w: &LspWs, dir: &PathBuf) -> Result<(Vec<(String, String)>, u64), SessionError> {
    write_files(dir, &w.files);
    let abs: Vec<(String, String)> = w.files.iter().map(|(n, t)| (dir.join(n).to_string_lossy().to_string(), t.clone())).collect();
    let mut m = Mapper::new(&abs);
    let root_path = abs[0].0.clone();
    let ide = Ws::new(&abs, &root_path);
    let a = ide.analysis();
    let mut problems: Vec<(String, String)> = Vec::new();
    let mut compared = 0u64;
    let mut cmp = |problems: &mut Vec<(String, String)>, clause: &str, what: String, got: &Value, want: &Value| {
        compared += 1;
        if got != want && !problems.iter().any(|(c, _)| c == clause) {
            problems.push((clause.to_string(), format!("{what}: server sent {got}, analysed span converts to {want}")));
        }
    };

    let t0 = std::time::Instant::now();
    let offered = CLIENT_ENCODINGS[w.client_encodings];
    let mut s = Session::start_with(dir, offered)?;
    // the unit of every position exchanged in this session is the one the server announced, which is one the client listed
    let announced = s.announced_encoding.clone();
    let acceptable = match (&announced, offered) {
        (None, _) => true,
        (Some(a), None) => a == "utf-16",
        (Some(a), Some(list)) => list.contains(&a.as_str()),
    };
    let unit = match Unit::of(announced.as_deref()) {
        Some(u) if acceptable => u,
        _ => {
            problems.push(("announced-encoding".into(), format!("the client listed {offered:?}; the server announced positionEncoding {announced:?}")));
            Unit::Utf16
        }
    };
    m = m.with_unit(unit);
    let t1 = t0.elapsed();
    s.did_open(&w.files[0].0, &w.files[0].1)?;
    s.quiesce()?;
    let t2 = t0.elapsed();
    if std::env::var("TGV_TIMING").is_ok() {
        eprintln!("start {:?} open+quiesce {:?}", t1, t2 - t1);
    }

    // published diagnostics
    let diags = a.diagnostics();
    let latest = s.latest_publications();
    for (fid, list) in &diags {
        let path = ide.fs.path_of(*fid);
        let uri = uri_of(&PathBuf::from(&path));
        let want = sorted(list.iter().map(|d| json!({ "range": m.range(&path, d.location.range), "message": d.message })).collect());
        let got = match latest.get(&uri) {
            Some(p) => sorted(p["diagnostics"].as_array().cloned().unwrap_or_default().iter().map(|d| json!({ "range": d["range"], "message": d["message"] })).collect()),
            None => vec![json!("<no publication>")],
        };
        cmp(&mut problems, "diagnostics", format!("diagnostics of {path}"), &json!(got), &json!(want));
    }

    // independently of the analysis: the syntax errors of a file's own text are published for that file,
    // in that file's coordinates (an error of an included file must not surface under its includer)
    for (path, text) in &abs {
        let uri = uri_of(&PathBuf::from(path));
        let Some(p) = latest.get(&uri) else { continue };
        let got: Vec<Value> = p["diagnostics"].as_array().cloned().unwrap_or_default().iter().map(|d| json!({ "range": d["range"], "message": d["message"] })).collect();
        for e in syntax::parse(text).errors() {
            let want = json!({ "range": m.range(path, e.range), "message": e.message });
            let held = if got.contains(&want) { want.clone() } else { json!(got) };
            cmp(&mut problems, "syntax-error-of-the-file", format!("{path}: a syntax error of its own text among the diagnostics published for it"), &held, &want);
        }
    }

    let files: Vec<(FileId, String)> = {
        let mut v: Vec<(FileId, String)> = diags.keys().map(|f| (*f, ide.fs.path_of(*f))).collect();
        v.sort_by(|x, y| x.1.cmp(&y.1));
        v
    };
    for (fid, path) in &files {
        let text = m.texts[path].0.clone();
        let doc = json!({ "uri": uri_of(&PathBuf::from(path)) });
        // per-file requests
        let got = s.request("textDocument/documentSymbol", json!({ "textDocument": doc }))?;
        let want: Value = match a.document_symbol(*fid) {
            Some(list) => json!(list.iter().map(|x| expect_symbol(symbol_json(&m, path, x))).collect::<Vec<_>>()),
            None => Value::Null,
        };
        let got_s = got.as_array().map(|arr| json!(arr.iter().map(strip_symbol).collect::<Vec<_>>())).unwrap_or(got.clone());
        cmp(&mut problems, "document-symbol", format!("documentSymbol of {path}"), &got_s, &want);

        let got = s.request("textDocument/foldingRange", json!({ "textDocument": doc }))?;
        let want = json!(a
            .folding_range(*fid)
            .unwrap_or_default()
            .iter()
            .map(|r| json!({ "startLine": m.line(path, usize::from(r.range.start())), "endLine": m.line(path, usize::from(r.range.end())) }))
            .collect::<Vec<_>>());
        let got_f = json!(got.as_array().cloned().unwrap_or_default().iter().map(|r| json!({ "startLine": r["startLine"], "endLine": r["endLine"] })).collect::<Vec<_>>());
        cmp(&mut problems, "folding-range", format!("foldingRange of {path}"), &got_f, &want);

        let got = s.request("textDocument/documentLink", json!({ "textDocument": doc }))?;
        let want = json!(a
            .document_link(*fid)
            .unwrap_or_default()
            .iter()
            .map(|l| json!({ "range": m.range(path, l.range), "target": uri_of(&PathBuf::from(ide.fs.path_of(l.target))) }))
            .collect::<Vec<_>>());
        let got_l = json!(got.as_array().cloned().unwrap_or_default().iter().map(|l| json!({ "range": l["range"], "target": l["target"] })).collect::<Vec<_>>());
        cmp(&mut problems, "document-link", format!("documentLink of {path}"), &got_l, &want);

        let whole = TextRange::new(TextSize::from(0), TextSize::from(text.len() as u32));
        let got = s.request("textDocument/inlayHint", json!({ "textDocument": doc, "range": m.range(path, whole) }))?;
        let want = json!(sorted(
            a.inlay_hint(FileRange::new(*fid, whole))
                .unwrap_or_default()
                .iter()
                .map(|h| json!({ "position": m.pos(path, usize::from(h.position)), "label": h.label }))
                .collect()
        ));
        let got_h = json!(sorted(got.as_array().cloned().unwrap_or_default().iter().map(|h| json!({ "position": h["position"], "label": h["label"] })).collect()));
        cmp(&mut problems, "inlay-hint", format!("inlayHint of {path}"), &got_h, &want);

        // position requests at the start and in the middle of every identifier
        for (st, en, _) in id_tokens(&text) {
            for off in [st, (st + en) / 2] {
                let pos = FilePosition::new(*fid, TextSize::from(off as u32));
                let params = json!({ "textDocument": doc, "position": m.pos(path, off) });
                let got = s.request("textDocument/definition", params.clone())?;
                let want = a.goto_definition(pos).map(|r| location(&ide, &m, &r)).unwrap_or(Value::Null);
                cmp(&mut problems, "definition", format!("definition at {path}@{off}"), &got, &want);

                let mut rp = params.clone();
                rp["context"] = json!({ "includeDeclaration": false });
                let got = s.request("textDocument/references", rp)?;
                let want = a.references(pos).map(|v| json!(sorted(v.iter().map(|r| location(&ide, &m, r)).collect()))).unwrap_or(Value::Null);
                let got_r = got.as_array().map(|arr| json!(sorted(arr.clone()))).unwrap_or(got.clone());
                cmp(&mut problems, "references", format!("references at {path}@{off}"), &got_r, &want);
            }
        }
    }
    // an edit that keeps every byte offset but moves everything one line down ("// root\n" -> "//root\n\n"):
    // the diagnostics the client holds afterwards are expressed in the new text's lines
    if let Some(rest) = w.files[0].1.strip_prefix("// root\n") {
        let edited = format!("//root\n\n{rest}");
        let mut abs2 = abs.clone();
        abs2[0].1 = edited.clone();
        let m2 = Mapper::new(&abs2).with_unit(unit);
        let ide2 = Ws::new(&abs2, &root_path);
        let a2 = ide2.analysis();
        s.did_change(&w.files[0].0, &edited, 2)?;
        s.quiesce()?;
        let latest = s.latest_publications();
        for (fid, list) in &a2.diagnostics() {
            let path = ide2.fs.path_of(*fid);
            let uri = uri_of(&PathBuf::from(&path));
            let want = sorted(list.iter().map(|d| json!({ "range": m2.range(&path, d.location.range), "message": d.message })).collect());
            let got = match latest.get(&uri) {
                Some(p) => sorted(p["diagnostics"].as_array().cloned().unwrap_or_default().iter().map(|d| json!({ "range": d["range"], "message": d["message"] })).collect()),
                None => vec![json!("<no publication>")],
            };
            cmp(&mut problems, "diagnostics-after-relayout", format!("diagnostics of {path} after an edit that keeps byte offsets and shifts lines"), &json!(got), &json!(want));
        }
    }
    if std::env::var("TGV_TIMING").is_ok() {
        eprintln!("total {:?} compared {compared}", t0.elapsed());
    }
    Ok((problems, compared))
}

fn eval(w: &LspWs, dir: &PathBuf) -> (Vec<Failure>, u64) {
    let mk = |c: &str, d: String| Failure::new(c, w.witness(), d, w.to_json());
    match guard(|| eval_ws(w, dir)) {
        Ok(Ok((problems, n))) => (problems.into_iter().map(|(c, d)| mk(&c, d)).collect(), n),
        Ok(Err(e)) => (vec![mk("server-failure", e.to_string())], 0),
        Err(p) => (vec![mk("harness-panic", format!("{} at {}", p.message, p.location))], 0),
    }
}

impl Engine for C09 {
    fn id(&self) -> &'static str {
        "C09"
    }

    fn rule(&self, tier: Tier) -> String {
        format!(
            "three-file workspaces: root a.td = prologue + include \"b.td\" (in the non-ASCII CRLF quarter spelled \"sub/../b.td\": one file, one identity) + include of a file whose name has a blank and non-ASCII letters + every sequence of 1..={} of {} statements that use b's declarations; b.td = a longer, differently-lined prologue + all {} declarations, or all but one, or all and an include of the root back (a cycle through the edited document); \
             x {{ASCII, 'é😀' before every statement and inside a string}} x {{LF, CRLF}} x {{a client that lists no position encodings; in the non-ASCII half also [utf-8, utf-16], [utf-32, utf-16] (thorough: and [utf-16, utf-8], [utf-16])}} x {{no byte order mark; for one-statement roots also a mark at the start of b, of a, of both (and of the third file)}} x {{complete, or ending in an unterminated statement whose last token touches the end of the text (both files)}}; the root is opened in the real server (framed JSON-RPC over an in-memory pipe) and, one message at a time, \
             definition and references at the start and middle of every identifier of both files, documentSymbol, foldingRange, documentLink, inlayHint(whole file) per file and the published diagnostics are compared (the syntax errors of each file's own text, parsed independently, must be among the diagnostics published for that file); finally the root is edited so that every byte offset stays and every line number moves, and the diagnostics the client then holds are compared again. \
             non-trivial = every workspace (each has cross-file locations); distinct by construction.",
            tier.pick(2, 3),
            A_ITEMS.len(),
            B_ITEMS.len()
        )
    }

    fn assumptions(&self) -> Vec<String> {
        vec![
            "expected spans come from the ide-level analysis of the same texts (C05/C13/C18 judge their content); this check judges only their expression in the named document's line/UTF-16 coordinates, by the reference mapper of C10, in the unit the server announced in its initialize result (UTF-16 when it announced none; an announcement the client did not list is a violation)".into(),
            "messages are sent one at a time to quiescence (hook H3 counters), so C08's schedules do not interfere".into(),
        ]
    }

    fn explore(&self, tier: Tier, ctx: &mut Ctx) {
        let dir = session_dir("C09", ctx.shard);
        workspaces(tier, |w| {
            if !ctx.mine() {
                return true;
            }
            ctx.trace(|| w.to_json());
            let (fails, n) = eval(&w, &dir);
            ctx.case(true);
            ctx.add("locations_compared", n);
            ctx.sample(|| json!(w.witness()));
            for f in fails {
                ctx.fail(f);
            }
            !ctx.expired()
        });
        let _ = std::fs::remove_dir_all(&dir);
    }

    fn eval_case(&self, case: &Value) -> Vec<Failure> {
        let dir = session_dir("C09", 99);
        let r = eval(&LspWs::from_json(case), &dir).0;
        let _ = std::fs::remove_dir_all(&dir);
        r
    }

    fn shrink(&self, case: &Value, _clause: &str) -> Vec<Value> {
        LspWs::from_json(case).shrink().into_iter().map(|w| w.to_json()).collect()
    }
}
