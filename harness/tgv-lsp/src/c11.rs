//! C11 — published diagnostics converge to the diagnostics of the final state.
//! C12 — editor buffers are the source of truth for open documents.
//!
//! Both are explicit searches over short sessions of the real server, compared
//! with a reference session model: texts = disk overlaid by open buffers,
//! root = last touched document, analysed by a fresh `ide` host.

use std::collections::{BTreeMap, BTreeSet};
use std::path::PathBuf;

use tgv_core::{guard, json, words, Ctx, Engine, Failure, Form, Tier, Value};
use tgv_ide::ws::Ws;

use crate::c09::{session_dir, Mapper};
use crate::session::{uri_of, write_files, Session, SessionError};

/// A message: the document is opened if it is not open yet, changed otherwise.
#[derive(Debug, Clone, PartialEq, Eq)]
pub struct Touch {
    pub doc: &'static str,
    pub text: String,
    /// the tab is closed and opened again with this text: the document's version count restarts at 1
    pub reopen: bool,
}

pub struct Scenario {
    pub id: &'static str,
    pub disk: Vec<(&'static str, String)>,
    pub alphabet: Vec<Touch>,
}

fn show(h: &[usize], sc: &Scenario) -> String {
    h.iter()
        .map(|&i| format!("{}{}:={:?}", sc.alphabet[i].doc, if sc.alphabet[i].reopen { " (reopened)" } else { "" }, sc.alphabet[i].text))
        .collect::<Vec<_>>()
        .join(" ; ")
}

pub fn c11_scenario() -> Scenario {
    let mut alphabet = Vec::new();
    for (x, y) in [("a.td", "b.td"), ("b.td", "a.td")] {
        let n = &x[..1];
        alphabet.push(Touch { doc: x, text: format!("class {n}0;\n"), reopen: false });
        // the same fault at the same byte offset on another line: the published range must follow
        alphabet.push(Touch { doc: x, text: format!(" def {n}1 : Missing;\n"), reopen: false });
        alphabet.push(Touch { doc: x, text: format!("\ndef {n}1 : Missing;\n"), reopen: false });
        alphabet.push(Touch { doc: x, text: format!("include \"{y}\"\nclass {n}2;\n"), reopen: false });
        // the same include list with the statement at another place
        alphabet.push(Touch { doc: x, text: format!("// moved\ninclude \"{y}\"\nclass {n}2;\n"), reopen: false });
        alphabet.push(Touch { doc: x, text: format!("include \"c.td\"\nclass {n}3;\n"), reopen: false });
        // a syntax error of the document's own text (reported for the file whatever its place in the workspace)
        alphabet.push(Touch { doc: x, text: format!("class {n}4\n"), reopen: false });
    }
    // the faulty file that is otherwise only on disk, open in the editor and emptied
    alphabet.push(Touch { doc: "c.td", text: String::new(), reopen: false });
    Scenario {
        id: "C11",
        disk: vec![("a.td", "class DA;\n".into()), ("b.td", "class DB;\n".into()), ("c.td", "def cx : MissingC;\n".into())],
        alphabet,
    }
}

pub fn c12_scenario() -> Scenario {
    Scenario {
        id: "C12",
        disk: vec![("a.td", "include \"b é.td\"\ndef x : DiskB;\n".into()), ("b é.td", "class DiskB;\n".into()), ("sub/placeholder.td", "// keeps the subdirectory on disk\n".into())],
        alphabet: vec![
            Touch { doc: "a.td", text: "include \"b é.td\"\ndef x : BufB;\n".into(), reopen: false },
            Touch { doc: "a.td", text: "// edited\ninclude \"b é.td\"\ndef y : BufB2;\n".into(), reopen: false },
            Touch { doc: "a.td", text: "include \"b é.td\"\ndef z : DiskB;\n".into(), reopen: false },
            // the root without its include: b.td leaves the workspace but stays open in the editor
            Touch { doc: "a.td", text: "def w;\n".into(), reopen: false },
            Touch { doc: "b é.td", text: "class BufB;\n".into(), reopen: false },
            Touch { doc: "b é.td", text: "class BufB2;\n".into(), reopen: false },
            Touch { doc: "b é.td", text: "class BufB;\nclass BufB2;\ndef bb : Nope;\n".into(), reopen: false },
            // the included file includes the root back: the walk reaches the edited document again
            Touch { doc: "b é.td", text: "include \"a.td\"\nclass BufB;\n".into(), reopen: false },
            // the editor's buffer is empty (everything deleted) while the file on disk is not
            Touch { doc: "b é.td", text: String::new(), reopen: false },
            Touch { doc: "a.td", text: String::new(), reopen: false },
            // a document in a subdirectory reaches the open document through `..`: it is the same file
            Touch { doc: "sub/c.td", text: "include \"../b é.td\"\ndef zc : BufB;\n".into(), reopen: false },
            // a tab closed and opened again: its version numbers start again below the ones seen before
            Touch { doc: "b é.td", text: "class BufB2;\n".into(), reopen: true },
            Touch { doc: "a.td", text: "include \"b é.td\"\ndef y : BufB2;\n".into(), reopen: true },
            // the faulty text of b with one line break as a blank: every byte offset stays, the lines move
            Touch { doc: "b é.td", text: "class BufB;\nclass BufB2; def bb : Nope;\n".into(), reopen: false },
            // a new document that has never been saved: it exists in the editor only, and the root includes it
            Touch { doc: "n.td", text: "class BufN;\n".into(), reopen: false },
            Touch { doc: "a.td", text: "include \"n.td\"\ndef xn : BufN;\n".into(), reopen: false },
        ],
    }
}

struct Model {
    dir: PathBuf,
    disk: BTreeMap<String, String>,
    buffers: BTreeMap<String, String>,
    root: Option<String>,
}

impl Model {
    fn texts(&self) -> Vec<(String, String)> {
        let mut m = self.disk.clone();
        for (k, v) in &self.buffers {
            m.insert(k.clone(), v.clone());
        }
        m.into_iter().map(|(k, v)| (self.dir.join(k).to_string_lossy().to_string(), v)).collect()
    }

    /// uri -> sorted [(range json, message)] for every file of the current workspace
    fn expected_diagnostics(&self) -> BTreeMap<String, Vec<Value>> {
        let texts = self.texts();
        let root = self.dir.join(self.root.as_ref().unwrap()).to_string_lossy().to_string();
        let ws = Ws::new(&texts, &root);
        let m = Mapper::new(&texts);
        let mut out = BTreeMap::new();
        for (f, list) in ws.analysis().diagnostics() {
            let path = ws.fs.path_of(f);
            let mut v: Vec<Value> = list.iter().map(|d| json!({ "range": m.range(&path, d.location.range), "message": d.message })).collect();
            v.sort_by_key(|x| x.to_string());
            out.insert(uri_of(&PathBuf::from(&path)), v);
        }
        out
    }

    /// names of the classes the outline of an open document must list
    fn expected_symbols(&self, doc: &str) -> Option<Vec<String>> {
        let texts = self.texts();
        let root = self.dir.join(self.root.as_ref().unwrap()).to_string_lossy().to_string();
        let ws = Ws::new(&texts, &root);
        let id = ws.fs.lookup(&self.dir.join(doc).to_string_lossy())?;
        ws.analysis().document_symbol(id).map(|l| l.iter().map(|s| format!("{} {}", s.typ, s.name)).collect())
    }
}

fn publication_diags(p: &Value) -> Vec<Value> {
    let mut v: Vec<Value> = p["diagnostics"].as_array().cloned().unwrap_or_default().iter().map(|d| json!({ "range": d["range"], "message": d["message"] })).collect();
    v.sort_by_key(|x| x.to_string());
    v
}

/// Runs one session; returns problems (clause, detail).
fn run_session(sc: &Scenario, h: &[usize], real: &PathBuf, via_link: bool, check_every_step: bool) -> Result<Vec<(String, String)>, SessionError> {
    let disk: Vec<(String, String)> = sc.disk.iter().map(|(n, t)| (n.to_string(), t.clone())).collect();
    write_files(real, &disk);
    // the editor may name the workspace through a symbolic link: the names in its URIs are the documents' names
    let link = PathBuf::from(format!("{}-link", real.to_string_lossy()));
    if via_link && std::fs::symlink_metadata(&link).is_err() {
        std::os::unix::fs::symlink(real, &link).map_err(|e| SessionError::Stuck(format!("symlink {link:?}: {e}")))?;
    }
    let dir = if via_link { &link } else { real };
    let mut model = Model { dir: dir.clone(), disk: disk.into_iter().collect(), buffers: BTreeMap::new(), root: None };
    let mut s = Session::start(dir)?;
    let mut problems: Vec<(String, String)> = Vec::new();
    let mut versions: BTreeMap<String, i64> = BTreeMap::new();
    let mut seen_pubs = 0usize;
    let mut doc_versions: BTreeMap<&str, i64> = BTreeMap::new();
    for (k, &i) in h.iter().enumerate() {
        let t = &sc.alphabet[i];
        // versions count per document, as editors send them
        let v = doc_versions.entry(t.doc).or_insert(0);
        if model.buffers.contains_key(t.doc) && !t.reopen {
            *v += 1;
            s.did_change(t.doc, &t.text, *v)?;
        } else {
            if model.buffers.contains_key(t.doc) {
                s.did_close(t.doc)?;
            }
            // the first open of a tab carries a high version (a long-lived buffer), a re-opened one starts at 1
            *v = if t.reopen { 1 } else { 10 };
            s.did_open_versioned(t.doc, &t.text, *v)?;
        }
        model.buffers.insert(t.doc.to_string(), t.text.clone());
        model.root = Some(t.doc.to_string());
        s.quiesce()?;
        // versions never decrease per URI
        for p in &s.published[seen_pubs..] {
            let uri = p["uri"].as_str().unwrap_or_default().to_string();
            let v = p["version"].as_i64().unwrap_or(-1);
            if let Some(prev) = versions.get(&uri) {
                if v < *prev {
                    problems.push(("version-decreased".into(), format!("{uri}: version {v} published after {prev}")));
                }
            }
            versions.insert(uri, v);
        }
        seen_pubs = s.published.len();
        let last = k + 1 == h.len();
        if !(last || check_every_step) {
            continue;
        }
        let step = format!("after message {} ({}:={:?})", k + 1, t.doc, t.text);
        let want = model.expected_diagnostics();
        let latest = s.latest_publications();
        // every file of the final workspace shows its diagnostics; every other URI ever published shows none
        let uris: BTreeSet<String> = want.keys().cloned().chain(latest.keys().cloned()).collect();
        for uri in uris {
            let got = latest.get(&uri).map(publication_diags);
            let exp = want.get(&uri).cloned().unwrap_or_default();
            match got {
                None if exp.is_empty() => {}
                None => problems.push(("never-published".into(), format!("{step}: {uri} should show {exp:?} but nothing was ever published for it"))),
                Some(g) if g != exp => {
                    let clause = if want.contains_key(&uri) { "stale-or-wrong-diagnostics" } else { "stale-diagnostics-for-file-outside-workspace" };
                    problems.push((clause.into(), format!("{step}: latest publication for {uri} is {g:?}, diagnostics of the current state are {exp:?}")));
                }
                Some(_) => {}
            }
        }
        if sc.id == "C12" {
            // responses reflect the buffers too: the outline of every open document
            let open: Vec<String> = model.buffers.keys().cloned().collect();
            for doc in open {
                let got = s.request("textDocument/documentSymbol", json!({ "textDocument": { "uri": s.uri(&doc) } }))?;
                let got_names: Option<Vec<String>> = got.as_array().map(|a| {
                    a.iter().map(|x| format!("{} {}", x["detail"].as_str().unwrap_or_default(), x["name"].as_str().unwrap_or_default())).collect()
                });
                let exp = model.expected_symbols(&doc);
                if got_names != exp {
                    problems.push(("response-not-from-buffer".into(), format!("{step}: documentSymbol of {doc} lists {got_names:?}; with buffers overlaid on disk it is {exp:?}")));
                }
            }
        }
    }
    Ok(problems)
}

fn witness(h: &[usize], sc: &Scenario, via_link: bool) -> String {
    if via_link {
        format!("(workspace named through a symbolic link) {}", show(h, sc))
    } else {
        show(h, sc)
    }
}

fn eval(sc: &Scenario, h: &[usize], dir: &PathBuf, via_link: bool, every: bool) -> Vec<Failure> {
    let case = json!({ "history": h, "via_link": via_link, "witness": witness(h, sc, via_link) });
    let mk = |c: &str, d: String| Failure::new(c, witness(h, sc, via_link), d, case.clone());
    let mut out: Vec<Failure> = Vec::new();
    match guard(|| run_session(sc, h, dir, via_link, every)) {
        Ok(Ok(problems)) => {
            for (c, d) in problems {
                if !out.iter().any(|f| f.clause == c) {
                    out.push(mk(&c, d));
                }
            }
        }
        Ok(Err(e)) => out.push(mk("server-failure", e.to_string())),
        Err(p) => out.push(mk("harness-panic", format!("{} at {}", p.message, p.location))),
    }
    out
}

fn history_of(case: &Value) -> Vec<usize> {
    case["history"].as_array().map(|a| a.iter().filter_map(|x| x.as_u64()).map(|x| x as usize).collect()).unwrap_or_default()
}

/// Every history of <= `depth` messages over the whole alphabet, and every history of exactly
/// `depth + 1` messages over the letters listed in `core` (none when empty).
fn explore(sc: &Scenario, depth: u32, core: &[usize], ctx: &mut Ctx) {
    let dir = session_dir(sc.id, ctx.shard);
    let (shard, n) = (ctx.shard, ctx.nshards);
    let mut states: BTreeSet<String> = BTreeSet::new();
    let mut histories: Vec<Vec<usize>> = Vec::new();
    words::for_each_word(sc.alphabet.len(), depth, shard, n, |_, h| {
        histories.push(h.to_vec());
        true
    });
    if !core.is_empty() {
        words::for_each_word(core.len(), depth + 1, shard, n, |_, w| {
            if w.len() as u32 == depth + 1 {
                histories.push(w.iter().map(|&i| core[i]).collect());
            }
            true
        });
    }
    // C12: every history twice, the workspace named by its own path and through a symbolic link
    let modes: &[bool] = if sc.id == "C12" { &[false, true] } else { &[false] };
    for (h, via_link) in histories.iter().flat_map(|h| modes.iter().map(move |&l| (h.as_slice(), l))) {
        let go = (|| {
        if h.is_empty() {
            return true;
        }
        ctx.trace(|| json!({ "history": h, "via_link": via_link, "witness": witness(h, sc, via_link) }));
        let fails = eval(sc, h, &dir, via_link, sc.id == "C12");
        let nontrivial = h.len() >= 2;
        ctx.case(nontrivial);
        ctx.add("traces", 1);
        ctx.add("transitions", h.len() as u64);
        // canonical session state: buffer per document + root
        let mut bufs: BTreeMap<&str, usize> = BTreeMap::new();
        for &i in h {
            bufs.insert(sc.alphabet[i].doc, i);
            states.insert(format!("{bufs:?} root={}", sc.alphabet[i].doc));
        }
        if nontrivial {
            ctx.sample(|| json!(show(h, sc)));
        }
        for f in fails {
            ctx.fail(f);
        }
        !ctx.expired()
        })();
        if !go {
            break;
        }
    }
    ctx.max("states", states.len() as u64);
    let _ = std::fs::remove_file(format!("{}-link", dir.to_string_lossy()));
    let _ = std::fs::remove_dir_all(&dir);
}

pub struct C11;
pub struct C12;

impl Engine for C11 {
    fn id(&self) -> &'static str {
        "C11"
    }
    fn form(&self) -> Form {
        Form::H
    }
    fn rule(&self, tier: Tier) -> String {
        format!(
            "every session of <= {} didOpen/didChange messages (thorough: 4, and every session of 5 over ten of the fifteen letters) over two documents x 7 texts each (clean; a syntax error; faulty, twice: the same fault at the same byte offset on two different lines; includes the other document, twice: the include statement at two different places; includes a faulty file that is only on disk) and a third document: that faulty file, open with an empty buffer, \
             the first message to a document being didOpen and later ones didChange, driven through the real server one message at a time to quiescence; after the last message of every session \
             (every session is a prefix of longer ones) the latest publication per URI must equal the diagnostics of the final state and be empty for URIs outside the final workspace; versions per URI never decrease. \
             In addition every schedule (controlled scheduler and lock model of C08, hook H3) of every scenario didOpen ; n1 [; n2 [; n3]] of <= {} open/change notifications \
             (change of the root, resend, a second document, an unseen third; every text of the root carries a diagnostic): per file the versions of the publications, in the order they are sent, never decrease, and what the client holds when everything has ended (file -> number of diagnostics of its latest publication, hook H3) is the same for every schedule. \
             states = distinct (buffers, root) configurations; transitions = messages; non-trivial = sessions of >= 2 messages.",
            tier.pick(3, 4),
            tier.pick(2, 3)
        )
    }
    fn assumptions(&self) -> Vec<String> {
        vec![
            "final-state diagnostics come from a fresh ide analysis of disk texts overlaid by the open buffers with the last touched document as root, converted by the reference mapper".into(),
            "sequential sessions; schedules of concurrently running tasks are C08's subject".into(),
        ]
    }
    fn explore(&self, tier: Tier, ctx: &mut Ctx) {
        // thorough: every session of <= 4 messages over all 15 letters and every session of 5 over ten of them
        // (clean / faulty / including / including the disk-only file / syntax error for each document, the emptied third)
        let core: &[usize] = match tier {
            Tier::Quick => &[],
            Tier::Thorough => &[0, 1, 3, 5, 6, 7, 8, 10, 13, 14],
        };
        explore(&c11_scenario(), tier.pick(3, 4), core, ctx);
        // the order of publications under every schedule: scenarios of <= 2 (t: 3) open/change notifications after
        // the first open, on the controlled scheduler of C08 (hook H3); per file the published versions never decrease
        let letters = crate::c08::notification_letters();
        let dir = session_dir("C11s", ctx.shard);
        let max_len = tier.pick(2, 3);
        let total = tgv_core::words::count_upto(letters.len() as u64, max_len);
        let mut word = Vec::new();
        for idx in 1..total {
            if !ctx.is_mine(idx) {
                continue;
            }
            tgv_core::words::decode(idx, letters.len() as u64, max_len, &mut word);
            let scenario: Vec<usize> = word.iter().map(|&i| letters[i]).collect();
            if !crate::c08::explore_publication_order(&scenario, &dir, ctx) {
                break;
            }
        }
        let _ = std::fs::remove_dir_all(&dir);
    }
    fn eval_case(&self, case: &Value) -> Vec<Failure> {
        if case.get("scenario").is_some() {
            return crate::c08::eval_publication_order(case);
        }
        let dir = session_dir("C11", 99);
        let r = eval(&c11_scenario(), &history_of(case), &dir, false, false);
        let _ = std::fs::remove_dir_all(&dir);
        r
    }
    fn shrink(&self, case: &Value, _clause: &str) -> Vec<Value> {
        if case.get("scenario").is_some() {
            return crate::c08::shrink_scenario(case);
        }
        let sc = c11_scenario();
        let via_link = case["via_link"].as_bool().unwrap_or(false);
        tgv_core::shrink::deletions(&history_of(case)).into_iter().map(|h| json!({ "history": h, "via_link": via_link, "witness": witness(&h, &sc, via_link) })).collect()
    }
}

impl Engine for C12 {
    fn id(&self) -> &'static str {
        "C12"
    }
    fn form(&self) -> Form {
        Form::H
    }
    fn rule(&self, tier: Tier) -> String {
        format!(
            "every session of <= {} messages over the 16 letters below and every session of {} messages over 9 of them (a with and without its include, b's two buffers, b including a back, b emptied, both re-opened): {{a.td := 5 texts (three include b.td, one does not, so that b.td leaves and re-enters the workspace while open), b.td := 5 texts, one of which includes a.td back so that the include walk reaches the edited document again; both documents also have the empty text, and each can be closed and opened again; a third document in a subdirectory includes the second through `..`; a fourth exists in the editor only (never saved) and the root can include it; versions count per document, the first open of a tab carries version 10, a re-opened tab starts again at 1}}, the included document is named `b é.td` (its URI carries percent-escapes); every session runs twice, the editor naming the workspace directory by its own path and through a symbolic link to it; the on-disk b.td declares DiskB and the editor's b.td declares BufB / BufB2 (a's texts refer to one of them), \
             first message to a document = didOpen, later = didChange; after EVERY message the latest publications and the documentSymbol response of every open document must match the reference session model \
             (texts = disk overlaid by open buffers, root = last touched document). states = distinct (buffers, root) configurations; transitions = messages; non-trivial = sessions of >= 2 messages.",
            tier.pick(3, 4),
            tier.pick(4, 5)
        )
    }
    fn assumptions(&self) -> Vec<String> {
        vec!["the file system is a directory of small files written by the harness; real editors and disk faults are out of scope".into()]
    }
    fn explore(&self, tier: Tier, ctx: &mut Ctx) {
        // the core letters: a with and without its include, b's two buffers, b including a back, b emptied, both re-opened
        explore(&c12_scenario(), tier.pick(3, 4), &[0, 3, 4, 5, 7, 8, 10, 11, 12], ctx);
    }
    fn eval_case(&self, case: &Value) -> Vec<Failure> {
        let dir = session_dir("C12", 99);
        let r = eval(&c12_scenario(), &history_of(case), &dir, case["via_link"].as_bool().unwrap_or(false), true);
        let _ = std::fs::remove_file(format!("{}-link", dir.to_string_lossy()));
        let _ = std::fs::remove_dir_all(&dir);
        r
    }
    fn shrink(&self, case: &Value, _clause: &str) -> Vec<Value> {
        let sc = c12_scenario();
        let via_link = case["via_link"].as_bool().unwrap_or(false);
        tgv_core::shrink::deletions(&history_of(case)).into_iter().map(|h| json!({ "history": h, "via_link": via_link, "witness": witness(&h, &sc, via_link) })).collect()
    }
}
