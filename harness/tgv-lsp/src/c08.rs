//! C08 — server liveness: stateless exploration of every schedule of the real
//! server's synchronisation points under a controlled scheduler.
//!
//! Every thread parks at each schedule point (hook H3). A small lock model (who
//! holds the file-table lock, how many database snapshots are alive) decides
//! which parked thread may run; a depth-first search enumerates every choice
//! sequence; "a thread is parked and nothing is enabled" is a deadlock.

use std::collections::{BTreeMap, BTreeSet};
use std::panic::AssertUnwindSafe;
use std::path::PathBuf;
use std::sync::{Arc, Condvar, Mutex};
use std::time::{Duration, Instant};

use async_lsp::{AnyNotification, AnyRequest, LspService, MainLoop};
use lsp::server::Server;
use lsp::verif::Ev;
use serde_json::json;
use tgv_core::{Ctx, Engine, Failure, Form, Tier, Value};
use tower::Service;

use crate::c09::session_dir;
use crate::session::{uri_of, write_files};

pub struct C08;

#[derive(Debug, Clone, Copy, PartialEq, Eq, PartialOrd, Ord, Hash)]
pub enum Key {
    Main,
    Task(u64),
}

/// What a parked thread is about to do.
#[derive(Debug, Clone, Copy, PartialEq, Eq, Hash)]
enum Pending {
    MsgStart(usize),
    MainFinish,
    VfsWrite,
    VfsRead(&'static str),
    SalsaWrite(&'static str),
    TaskStart,
}

#[derive(Default)]
struct St {
    parked: BTreeMap<Key, Pending>,
    go: Option<Key>,
    running: Option<Key>,
    pending_starts: u32,
    snapshots: u32,
    writer: bool,
    readers: u32,
    tasks_created: Vec<u64>,
    tasks_ended: BTreeSet<u64>,
    /// tasks that were resumed and neither reached a schedule point nor ended: they wait for something that is
    /// not a schedule point (in this harness: for the client, which never answers). They keep what they hold.
    env_blocked: BTreeSet<Key>,
    main_done: bool,
    published: u32,
    /// (file id, version) of every publication, in the order they were sent
    publications: Vec<(u32, i32)>,
    /// number of diagnostics of the latest publication per file id
    last_counts: BTreeMap<u32, usize>,
    /// events passed per thread (program counters for state matching)
    pcs: BTreeMap<Key, u32>,
    model_violation: Option<String>,
    abandon: bool,
    log: Vec<String>,
}

struct Shared {
    m: Mutex<St>,
    cv: Condvar,
}

thread_local! {
    static KEY: std::cell::Cell<Option<Key>> = const { std::cell::Cell::new(None) };
}

fn task_of(ids: &mut BTreeMap<u64, u64>, raw: u64) -> u64 {
    // raw ids are process-global; renumber per execution in order of creation
    let n = ids.len() as u64;
    *ids.entry(raw).or_insert(n)
}

impl Shared {
    fn park(&self, key: Key, what: Pending) {
        let mut st = self.m.lock().unwrap();
        st.parked.insert(key, what);
        st.env_blocked.remove(&key);
        if st.running == Some(key) {
            st.running = None;
        }
        if what == Pending::TaskStart {
            st.pending_starts = st.pending_starts.saturating_sub(1);
        }
        self.cv.notify_all();
        loop {
            if st.abandon {
                drop(st);
                loop {
                    std::thread::park();
                }
            }
            if st.go == Some(key) {
                break;
            }
            st = self.cv.wait(st).unwrap();
        }
        st.go = None;
        st.parked.remove(&key);
        st.running = Some(key);
        *st.pcs.entry(key).or_insert(0) += 1;
    }

    fn on_event(&self, ev: Ev, ids: &Mutex<BTreeMap<u64, u64>>) {
        let key = match ev {
            Ev::TaskStart(raw) => {
                let id = task_of(&mut ids.lock().unwrap(), raw);
                KEY.with(|k| k.set(Some(Key::Task(id))));
                Key::Task(id)
            }
            _ => match KEY.with(|k| k.get()) {
                Some(k) => k,
                None => return, // a thread we do not control (no scheduling relevance)
            },
        };
        match ev {
            Ev::VfsWriteWant => self.park(key, Pending::VfsWrite),
            Ev::VfsReadWant(site) => self.park(key, Pending::VfsRead(site)),
            Ev::SalsaWriteWant(site) => self.park(key, Pending::SalsaWrite(site)),
            Ev::TaskStart(_) => self.park(key, Pending::TaskStart),
            _ => {
                let mut st = self.m.lock().unwrap();
                *st.pcs.entry(key).or_insert(0) += 1;
                match ev {
                    Ev::VfsWriteAcquired => {
                        if st.writer || st.readers > 0 {
                            st.model_violation = Some(format!("write lock acquired while writer={} readers={}", st.writer, st.readers));
                        }
                        st.writer = true;
                    }
                    Ev::VfsWriteReleased => st.writer = false,
                    Ev::VfsReadAcquired(_) => {
                        if st.writer {
                            st.model_violation = Some("read lock acquired while a writer holds the lock".into());
                        }
                        st.readers += 1;
                    }
                    Ev::VfsReadReleased(_) => st.readers = st.readers.saturating_sub(1),
                    Ev::SalsaWriteDone(_) => {
                        if st.snapshots > 0 {
                            st.model_violation = Some(format!("salsa input written while {} snapshots are alive", st.snapshots));
                        }
                    }
                    Ev::SnapshotCreated(raw) => {
                        let id = task_of(&mut ids.lock().unwrap(), raw);
                        st.tasks_created.push(id);
                        st.snapshots += 1;
                        st.pending_starts += 1;
                    }
                    // a snapshot lives until it is dropped - normally when its task's closure returns, but a task
                    // may let go of it earlier (hook H4)
                    Ev::SnapshotDropped => st.snapshots = st.snapshots.saturating_sub(1),
                    Ev::TaskEnd(raw) => {
                        let id = task_of(&mut ids.lock().unwrap(), raw);
                        st.tasks_ended.insert(id);
                        st.env_blocked.remove(&key);
                        if st.running == Some(key) {
                            st.running = None;
                        }
                        KEY.with(|k| k.set(None));
                    }
                    Ev::Published => st.published += 1,
                    Ev::PublishedFor(file, version) => st.publications.push((file, version)),
                    Ev::PublishedCount(file, n) => {
                        st.last_counts.insert(file, n);
                    }
                    _ => {}
                }
                self.cv.notify_all();
            }
        }
    }
}

fn enabled(p: Pending, st: &St) -> bool {
    match p {
        Pending::MsgStart(_) | Pending::TaskStart => true,
        // (a task that waits for the client for ever has not ended and never will: it does not keep the main loop)
        Pending::MainFinish => st.tasks_ended.len() + st.env_blocked.len() == st.tasks_created.len() && st.pending_starts == 0,
        Pending::VfsWrite => !st.writer && st.readers == 0,
        // std's RwLock on this platform prefers writers: a thread that has arrived at write() while the lock
        // is held is a waiting writer, and new readers queue behind it (also a reader re-entering the lock)
        Pending::VfsRead(_) => !st.writer && !(st.readers > 0 && st.parked.values().any(|p| *p == Pending::VfsWrite)),
        Pending::SalsaWrite(_) => st.snapshots == 0,
    }
}

pub const REQUESTS: &[&str] = &[
    "textDocument/definition",
    "textDocument/references",
    "textDocument/hover",
    "textDocument/documentSymbol",
    "textDocument/inlayHint",
    "textDocument/completion",
    "textDocument/documentLink",
    "textDocument/foldingRange",
];

/// Client capabilities with every "the server may ask / refresh / register" switch on.
pub fn full_client_capabilities() -> Value {
    json!({
        "workspace": {
            "applyEdit": true,
            "workspaceEdit": { "documentChanges": true },
            "didChangeConfiguration": { "dynamicRegistration": true },
            "didChangeWatchedFiles": { "dynamicRegistration": true, "relativePatternSupport": true },
            "symbol": { "dynamicRegistration": true },
            "executeCommand": { "dynamicRegistration": true },
            "workspaceFolders": true,
            "configuration": true,
            "semanticTokens": { "refreshSupport": true },
            "codeLens": { "refreshSupport": true },
            "inlayHint": { "refreshSupport": true },
            "inlineValue": { "refreshSupport": true },
            "diagnostics": { "refreshSupport": true }
        },
        "textDocument": {
            "synchronization": { "dynamicRegistration": true, "willSave": true, "willSaveWaitUntil": true, "didSave": true },
            "publishDiagnostics": { "relatedInformation": true, "versionSupport": true, "codeDescriptionSupport": true, "dataSupport": true },
            "completion": { "dynamicRegistration": true, "completionItem": { "snippetSupport": true } },
            "hover": { "dynamicRegistration": true, "contentFormat": ["markdown", "plaintext"] },
            "definition": { "dynamicRegistration": true, "linkSupport": true },
            "references": { "dynamicRegistration": true },
            "documentSymbol": { "dynamicRegistration": true, "hierarchicalDocumentSymbolSupport": true },
            "documentLink": { "dynamicRegistration": true, "tooltipSupport": true },
            "foldingRange": { "dynamicRegistration": true, "lineFoldingOnly": true },
            "inlayHint": { "dynamicRegistration": true },
            "diagnostic": { "dynamicRegistration": true, "relatedDocumentSupport": true }
        },
        "window": { "workDoneProgress": true, "showMessage": { "messageActionItem": { "additionalPropertiesSupport": true } }, "showDocument": { "support": true } },
        "general": { "positionEncodings": ["utf-16"] }
    })
}

/// Message menu: 0 = didChange of the root document, 1 = didOpen/didChange of a second document
/// (which becomes the root, so that the previous root leaves the workspace), 2.. = the request kinds,
/// then didChange of the root document with the text it already has (a save without an edit),
/// last = didOpen/didChange of a third document that nothing includes (the server has never seen its path).
pub fn menu_len() -> usize {
    5 + REQUESTS.len()
}

/// didClose of the root document (it exists on disk): the last letter of the menu.
fn is_close(m: usize) -> bool {
    m == 4 + REQUESTS.len()
}

fn is_fresh_doc(m: usize) -> bool {
    m == 3 + REQUESTS.len()
}

fn is_request(m: usize) -> bool {
    (2..2 + REQUESTS.len()).contains(&m)
}

fn message_name(m: usize) -> &'static str {
    match m {
        0 => "didChange(a)",
        1 => "touch(b)",
        m if is_request(m) => REQUESTS[m - 2],
        m if is_fresh_doc(m) => "touch(c)",
        m if is_close(m) => "close(a)",
        _ => "resend(a)",
    }
}

// (each text of the root carries a diagnostic: what the client shows for a document that has left the workspace matters)
const ROOT_TEXT: &str = "include \"b.td\"\nclass B : A;\ndef d : B;\ndef bad : Missing;\n";
const ROOT_TEXT2: &str = "// edited\ninclude \"b.td\"\nclass B : A;\ndef e : B;\ndef bad1 : Missing; def bad2 : Missing;\n";
const INCLUDED_TEXT: &str = "class A;\n";

#[derive(Debug, Clone, Default)]
pub struct Outcome {
    pub choices: Vec<(usize, usize)>, // (number enabled, chosen)
    pub deadlock: Option<String>,
    pub problem: Option<(String, String)>,
    pub states: Vec<String>,
    pub steps: u64,
    /// (file id, version) of every publication, in the order they were sent
    pub publications: Vec<(u32, i32)>,
    /// number of diagnostics of the latest publication per file id, when everything has ended
    pub final_counts: BTreeMap<u32, usize>,
}

/// Executes one schedule (choice prefix, then first-enabled) of a scenario.
pub fn execute(scenario: &[usize], prefix: &[usize], dir: &PathBuf) -> Outcome {
    write_files(dir, &[("a.td".into(), ROOT_TEXT.into()), ("b.td".into(), INCLUDED_TEXT.into())]);
    // the main-loop thread counts as running until it parks for the first time
    let shared = Arc::new(Shared { m: Mutex::new(St { running: Some(Key::Main), ..St::default() }), cv: Condvar::new() });
    let ids: Arc<Mutex<BTreeMap<u64, u64>>> = Arc::new(Mutex::new(BTreeMap::new()));
    {
        let shared = shared.clone();
        let ids = ids.clone();
        lsp::verif::set_callback(Some(Arc::new(move |ev| shared.on_event(ev, &ids))));
    }
    let rt = tokio::runtime::Builder::new_multi_thread().worker_threads(1).max_blocking_threads(8).enable_all().build().expect("runtime");
    let handle = rt.handle().clone();
    let uri = uri_of(&dir.join("a.td"));
    let uri_b = uri_of(&dir.join("b.td"));
    let uri_c = uri_of(&dir.join("c.td"));
    let script: Vec<usize> = scenario.to_vec();
    let (tx, rx) = std::sync::mpsc::channel::<Result<Vec<String>, String>>();
    let sh = shared.clone();
    let main = std::thread::Builder::new()
        .name("c08-main-loop".into())
        .spawn(move || {
            KEY.with(|k| k.set(Some(Key::Main)));
            let handle2 = handle.clone();
            let _g = handle.enter();
            let r = std::panic::catch_unwind(AssertUnwindSafe(|| {
                let (mut mainloop, _client) = MainLoop::new_server(Server::new_router);
                let router = mainloop.get_mut();
                // the handshake of an editor that supports everything a server may ask a client for
                let init: AnyRequest = serde_json::from_value(json!({ "id": -1, "method": "initialize", "params": { "processId": null, "rootUri": null, "capabilities": full_client_capabilities() } })).unwrap();
                let _ = handle2.block_on(async { tokio::time::timeout(Duration::from_secs(10), router.call(init)).await });
                let _ = router.notify(serde_json::from_value::<AnyNotification>(json!({ "method": "initialized", "params": {} })).unwrap());
                let doc = json!({ "uri": uri });
                let mut futures = Vec::new();
                let mut version = 1;
                let mut b_open = false;
                let mut text_of_a = ROOT_TEXT;
                let mut c_open = false;
                // message 0 is always didOpen
                for (k, m) in std::iter::once(usize::MAX).chain(script.iter().copied()).enumerate() {
                    sh.park(Key::Main, Pending::MsgStart(k));
                    if m == usize::MAX {
                        let n: AnyNotification = serde_json::from_value(json!({ "method": "textDocument/didOpen", "params": {
                            "textDocument": { "uri": uri, "languageId": "tablegen", "version": 1, "text": ROOT_TEXT } } }))
                        .unwrap();
                        let _ = router.notify(n);
                    } else if m == 0 {
                        version += 1;
                        text_of_a = if text_of_a == ROOT_TEXT { ROOT_TEXT2 } else { ROOT_TEXT };
                        let n: AnyNotification = serde_json::from_value(json!({ "method": "textDocument/didChange", "params": {
                            "textDocument": { "uri": uri, "version": version }, "contentChanges": [ { "text": text_of_a } ] } }))
                        .unwrap();
                        let _ = router.notify(n);
                    } else if is_close(m) {
                        // the tab of the root document is closed (the file is on disk); a later change of it re-opens nothing
                        let n: AnyNotification = serde_json::from_value(json!({ "method": "textDocument/didClose", "params": { "textDocument": { "uri": uri } } })).unwrap();
                        let _ = router.notify(n);
                    } else if is_fresh_doc(m) {
                        // a document whose path the server meets for the first time (nothing includes it)
                        version += 1;
                        let text = if version % 2 == 0 { "class C;\n" } else { "class C;\ndef c : C;\n" };
                        let n: AnyNotification = if c_open {
                            serde_json::from_value(json!({ "method": "textDocument/didChange", "params": {
                                "textDocument": { "uri": uri_c, "version": version }, "contentChanges": [ { "text": text } ] } }))
                            .unwrap()
                        } else {
                            serde_json::from_value(json!({ "method": "textDocument/didOpen", "params": {
                                "textDocument": { "uri": uri_c, "languageId": "tablegen", "version": version, "text": text } } }))
                            .unwrap()
                        };
                        c_open = true;
                        let _ = router.notify(n);
                    } else if !is_request(m) && m != 1 {
                        // the same text again, under a new version
                        version += 1;
                        let n: AnyNotification = serde_json::from_value(json!({ "method": "textDocument/didChange", "params": {
                            "textDocument": { "uri": uri, "version": version }, "contentChanges": [ { "text": text_of_a } ] } }))
                        .unwrap();
                        let _ = router.notify(n);
                    } else if m == 1 {
                        version += 1;
                        let text = if version % 2 == 0 { "class A;\nclass Extra;\n" } else { INCLUDED_TEXT };
                        let n: AnyNotification = if b_open {
                            serde_json::from_value(json!({ "method": "textDocument/didChange", "params": {
                                "textDocument": { "uri": uri_b, "version": version }, "contentChanges": [ { "text": text } ] } }))
                            .unwrap()
                        } else {
                            serde_json::from_value(json!({ "method": "textDocument/didOpen", "params": {
                                "textDocument": { "uri": uri_b, "languageId": "tablegen", "version": version, "text": text } } }))
                            .unwrap()
                        };
                        b_open = true;
                        let _ = router.notify(n);
                    } else {
                        let method = REQUESTS[m - 2];
                        let params = match method {
                            "textDocument/inlayHint" => json!({ "textDocument": doc, "range": { "start": { "line": 0, "character": 0 }, "end": { "line": 3, "character": 0 } } }),
                            "textDocument/references" => json!({ "textDocument": doc, "position": { "line": 1, "character": 10 }, "context": { "includeDeclaration": false } }),
                            "textDocument/documentSymbol" | "textDocument/documentLink" | "textDocument/foldingRange" => json!({ "textDocument": doc }),
                            _ => json!({ "textDocument": doc, "position": { "line": 1, "character": 10 } }),
                        };
                        let req: AnyRequest = serde_json::from_value(json!({ "id": k as i64, "method": method, "params": params })).unwrap();
                        futures.push((method, router.call(req)));
                    }
                }
                sh.park(Key::Main, Pending::MainFinish);
                // every task has ended: every response must be ready now
                let mut responses = Vec::new();
                for (method, fut) in futures {
                    // the pool thread may still be storing the task's output: wait, but not for ever
                    match handle2.block_on(async { tokio::time::timeout(Duration::from_secs(10), fut).await }) {
                        Ok(Ok(_)) => responses.push(format!("{method}: ok")),
                        Ok(Err(e)) => responses.push(format!("{method}: error response {e}")),
                        Err(_) => responses.push(format!("{method}: NO RESPONSE (future still pending 10 s after every task ended)")),
                    }
                }
                responses
            }));
            let mut st = sh.m.lock().unwrap();
            st.main_done = true;
            if st.running == Some(Key::Main) {
                st.running = None;
            }
            sh.cv.notify_all();
            drop(st);
            let _ = tx.send(r.map_err(|p| {
                p.downcast_ref::<String>().cloned().or_else(|| p.downcast_ref::<&str>().map(|s| s.to_string())).unwrap_or_else(|| "panic".into())
            }));
        })
        .expect("spawn main-loop thread");

    // the controller
    let mut out = Outcome::default();
    let machinery_deadline = Duration::from_secs(15);
    let env_deadline = Duration::from_secs(6);
    let mut depth = 0usize;
    loop {
        let t0 = Instant::now();
        let mut st = shared.m.lock().unwrap();
        // wait for quiescence: nobody running, every spawned task parked at its start
        while !(st.running.is_none() && st.pending_starts == 0) {
            let (g, to) = shared.cv.wait_timeout(st, Duration::from_millis(200)).unwrap();
            st = g;
            if to.timed_out() && t0.elapsed() > env_deadline {
                if let Some(k @ Key::Task(_)) = st.running {
                    // the lock model had this task enabled, handlers are straight-line between schedule points and
                    // take microseconds: it waits for something that is not a schedule point - the client's answer
                    // to a request of the server, which this harness never gives. That alone is not a verdict (the
                    // main loop and the other tasks may go on); what the task holds meanwhile stays held.
                    st.env_blocked.insert(k);
                    st.running = None;
                    st.log.push(format!("{k:?}:blocked-outside-schedule-points"));
                    continue;
                }
            }
            if to.timed_out() && t0.elapsed() > machinery_deadline {
                st.abandon = true;
                // the main loop (or a task that has not started) does not come back: a liveness failure
                out.problem = Some((
                    "stall".into(),
                    format!("a resumed thread neither reached its next schedule point nor finished within {machinery_deadline:?} although the lock model had it enabled; running={:?} log tail={:?}", st.running, st.log.iter().rev().take(6).collect::<Vec<_>>()),
                ));
                shared.cv.notify_all();
                drop(st);
                rt.shutdown_background();
                lsp::verif::set_callback(None);
                return out;
            }
        }
        if let Some(v) = st.model_violation.take() {
            out.problem = Some(("machinery".into(), format!("lock model violated: {v}")));
        }
        if st.parked.is_empty() && st.main_done {
            break; // main done and every task ended
        }
        let en: Vec<(Key, Pending)> = st.parked.iter().filter(|(_, p)| enabled(**p, &st)).map(|(k, p)| (*k, *p)).collect();
        // canonical state for reporting / pruning
        out.states.push(format!("{:?}|{:?}|w{}r{}s{}", st.parked, st.pcs, st.writer, st.readers, st.snapshots));
        if en.is_empty() && !st.env_blocked.is_empty() {
            // give the tasks judged to be waiting outside the schedule points the full deadline to prove otherwise
            let waited = Instant::now();
            let before = st.env_blocked.clone();
            while st.env_blocked == before && waited.elapsed() < machinery_deadline {
                let (g, _) = shared.cv.wait_timeout(st, Duration::from_millis(200)).unwrap();
                st = g;
            }
            if st.env_blocked != before {
                drop(st);
                continue;
            }
        }
        if en.is_empty() {
            out.deadlock = Some(format!(
                "no parked thread is enabled: {:?}; file-table writer={} readers={} snapshots alive={}{}",
                st.parked,
                st.writer,
                st.readers,
                st.snapshots,
                if st.env_blocked.is_empty() { String::new() } else { format!("; waiting outside the schedule points (for the client, which is served by the main loop): {:?}", st.env_blocked) }
            ));
            st.abandon = true;
            shared.cv.notify_all();
            drop(st);
            rt.shutdown_background();
            lsp::verif::set_callback(None);
            return out;
        }
        let c = prefix.get(depth).copied().unwrap_or(0);
        if c >= en.len() {
            out.problem = Some(("machinery".into(), format!("replay divergence at depth {depth}: choice {c} of {} enabled", en.len())));
            st.abandon = true;
            shared.cv.notify_all();
            drop(st);
            rt.shutdown_background();
            lsp::verif::set_callback(None);
            return out;
        }
        out.choices.push((en.len(), c));
        let (key, what) = en[c];
        st.log.push(format!("{key:?}:{what:?}"));
        st.go = Some(key);
        st.running = Some(key);
        out.steps += 1;
        depth += 1;
        shared.cv.notify_all();
        drop(st);
    }
    let _ = main.join();
    let published = shared.m.lock().unwrap().published;
    out.publications = shared.m.lock().unwrap().publications.clone();
    out.final_counts = shared.m.lock().unwrap().last_counts.clone();
    match rx.try_recv() {
        Ok(Ok(responses)) => {
            if let Some(bad) = responses.iter().find(|r| !r.ends_with(": ok")) {
                out.problem.get_or_insert(("no-response".into(), bad.clone()));
            }
            let requests = scenario.iter().filter(|&&m| is_request(m)).count();
            if responses.len() != requests {
                out.problem.get_or_insert(("no-response".into(), format!("{} responses for {requests} requests", responses.len())));
            }
        }
        Ok(Err(p)) => {
            out.problem.get_or_insert(("main-loop-panic".into(), p));
        }
        Err(_) => {
            out.problem.get_or_insert(("machinery".into(), "main-loop thread returned nothing".into()));
        }
    }
    // each open/change that brings a new text or a new root publishes at least once; a resend of the
    // text the document already has is processed once its handler returns (a server may skip the rest)
    let notifications = 1 + scenario.iter().filter(|&&m| !is_request(m) && !is_close(m) && (m == 0 || m == 1 || is_fresh_doc(m))).count() as u32;
    if published < notifications && out.problem.is_none() {
        out.problem = Some(("notification-not-processed".into(), format!("{published} publications for {notifications} open/change notifications")));
    }
    rt.shutdown_background();
    lsp::verif::set_callback(None);
    out
}

fn show_scenario(s: &[usize]) -> String {
    std::iter::once("didOpen").chain(s.iter().map(|&m| message_name(m))).collect::<Vec<_>>().join(" ; ")
}

fn case_json(scenario: &[usize], schedule: &[usize]) -> Value {
    json!({ "scenario": scenario, "schedule": schedule, "witness": format!("{} @ schedule {:?}", show_scenario(scenario), schedule) })
}

/// Depth-first enumeration of every schedule of one scenario. Returns (schedules, states, transitions).
fn explore_scenario(scenario: &[usize], dir: &PathBuf, prune: bool, ctx: &mut Ctx) -> bool {
    let mut stack: Vec<Vec<usize>> = vec![vec![]];
    let mut expanded: BTreeSet<String> = BTreeSet::new();
    let mut distinct_states: BTreeSet<String> = BTreeSet::new();
    let mut deadlocks = 0;
    while let Some(prefix) = stack.pop() {
        ctx.trace(|| case_json(scenario, &prefix));
        let out = execute(scenario, &prefix, dir);
        ctx.case(out.choices.iter().any(|(n, _)| *n > 1));
        ctx.add("traces", 1);
        ctx.add("transitions", out.steps);
        let schedule: Vec<usize> = out.choices.iter().map(|(_, c)| *c).collect();
        if let Some(d) = &out.deadlock {
            deadlocks += 1;
            ctx.fail(Failure::new("deadlock", show_scenario(scenario), format!("schedule {schedule:?}: {d}"), case_json(scenario, &schedule)));
        }
        if let Some((c, d)) = &out.problem {
            if c == "machinery" {
                // a disagreement between the harness and itself is not a verdict about the server
                ctx.machinery_error(format!("{} @ schedule {schedule:?}: {d}", show_scenario(scenario)));
            } else {
                ctx.fail(Failure::new(c, show_scenario(scenario), format!("schedule {schedule:?}: {d}"), case_json(scenario, &schedule)));
            }
        }
        for s in &out.states {
            distinct_states.insert(s.clone());
        }
        // branch on every choice point at or beyond the prefix
        for i in (prefix.len()..out.choices.len()).rev() {
            let (n, c) = out.choices[i];
            if prune {
                // a state already expanded has the same futures: do not expand it again
                if let Some(s) = out.states.get(i) {
                    if !expanded.insert(s.clone()) {
                        continue;
                    }
                }
            }
            for alt in (c + 1)..n {
                let mut p: Vec<usize> = schedule[..i].to_vec();
                p.push(alt);
                stack.push(p);
            }
        }
        if deadlocks >= 2 || ctx.expired() {
            // each deadlocked execution leaves its threads parked for ever: stop early
            if deadlocks < 2 {
                ctx.mark_capped();
            }
            break;
        }
    }
    ctx.add("states", distinct_states.len() as u64);
    ctx.sample(|| json!({ "scenario": show_scenario(scenario), "distinct_states": distinct_states.len() }));
    !ctx.expired()
}

/// The notification letters of the menu (no requests): change of the root, of a second document, of an unseen third, resend.
pub fn notification_letters() -> Vec<usize> {
    (0..menu_len()).filter(|&m| !is_request(m) && !is_close(m)).collect()
}

/// First pair of publications of one file whose versions decrease, if any.
pub fn version_regression(pubs: &[(u32, i32)]) -> Option<String> {
    let mut last: BTreeMap<u32, i32> = BTreeMap::new();
    for (k, (file, v)) in pubs.iter().enumerate() {
        if let Some(prev) = last.get(file) {
            if v < prev {
                return Some(format!("publication #{k} carries version {v} for file {file} after version {prev} had been published for it; all publications (file, version): {pubs:?}"));
            }
        }
        last.insert(*file, *v);
    }
    None
}

/// Every schedule of one scenario (state-matching pruning), with the publication-order oracle of C11.
pub fn explore_publication_order(scenario: &[usize], dir: &PathBuf, ctx: &mut Ctx) -> bool {
    let mut stack: Vec<Vec<usize>> = vec![vec![]];
    let mut expanded: BTreeSet<String> = BTreeSet::new();
    let mut stuck = 0;
    // what the client holds once everything has ended is a function of the final texts, not of the schedule:
    // every complete execution must end like the first one (whose sequential twin C11's sessions judge)
    let mut baseline: Option<(Vec<usize>, BTreeMap<u32, usize>)> = None;
    while let Some(prefix) = stack.pop() {
        ctx.trace(|| case_json(scenario, &prefix));
        let out = execute(scenario, &prefix, dir);
        ctx.case(out.choices.iter().any(|(n, _)| *n > 1));
        ctx.add("schedules", 1);
        let schedule: Vec<usize> = out.choices.iter().map(|(_, c)| *c).collect();
        if out.deadlock.is_some() || out.problem.is_some() {
            // liveness is C08's verdict; here such an execution only ends the scenario
            stuck += 1;
        } else if let Some(d) = version_regression(&out.publications) {
            ctx.fail(Failure::new("version-decreased-under-schedule", show_scenario(scenario), format!("schedule {schedule:?}: {d}"), case_json(scenario, &schedule)));
        } else {
            match &baseline {
                None => baseline = Some((schedule.clone(), out.final_counts.clone())),
                Some((first, counts)) => {
                    if *counts != out.final_counts {
                        ctx.fail(Failure::new(
                            "final-publications-depend-on-schedule",
                            show_scenario(scenario),
                            format!("schedule {schedule:?} ends with (file id -> diagnostics of its latest publication) {:?}, schedule {first:?} with {counts:?}", out.final_counts),
                            json!({ "scenario": scenario, "schedule": schedule, "baseline_schedule": first, "witness": format!("{} @ schedule {:?} vs {:?}", show_scenario(scenario), schedule, first) }),
                        ));
                    }
                }
            }
        }
        for i in (prefix.len()..out.choices.len()).rev() {
            let (n, c) = out.choices[i];
            if let Some(s) = out.states.get(i) {
                if !expanded.insert(s.clone()) {
                    continue;
                }
            }
            for alt in (c + 1)..n {
                let mut p: Vec<usize> = schedule[..i].to_vec();
                p.push(alt);
                stack.push(p);
            }
        }
        if stuck >= 2 || ctx.expired() {
            break;
        }
    }
    !ctx.expired()
}

/// Re-executes one stored (scenario, schedule) case with the publication-order oracle.
pub fn eval_publication_order(case: &Value) -> Vec<Failure> {
    let scenario: Vec<usize> = case["scenario"].as_array().map(|a| a.iter().filter_map(|x| x.as_u64()).map(|x| x as usize).collect()).unwrap_or_default();
    let schedule: Vec<usize> = case["schedule"].as_array().map(|a| a.iter().filter_map(|x| x.as_u64()).map(|x| x as usize).collect()).unwrap_or_default();
    let dir = session_dir("C11s", 99);
    let out = execute(&scenario, &schedule, &dir);
    let _ = std::fs::remove_dir_all(&dir);
    let sched: Vec<usize> = out.choices.iter().map(|(_, c)| *c).collect();
    if let Some(first) = case["baseline_schedule"].as_array() {
        let first: Vec<usize> = first.iter().filter_map(|x| x.as_u64()).map(|x| x as usize).collect();
        let dir = session_dir("C11s", 98);
        let base = execute(&scenario, &first, &dir);
        let _ = std::fs::remove_dir_all(&dir);
        if base.deadlock.is_none() && base.problem.is_none() && out.deadlock.is_none() && out.problem.is_none() && base.final_counts != out.final_counts {
            return vec![Failure::new(
                "final-publications-depend-on-schedule",
                show_scenario(&scenario),
                format!("schedule {sched:?} ends with (file id -> diagnostics of its latest publication) {:?}, schedule {first:?} with {:?}", out.final_counts, base.final_counts),
                json!({ "scenario": scenario, "schedule": sched, "baseline_schedule": first, "witness": format!("{} @ schedule {:?} vs {:?}", show_scenario(&scenario), sched, first) }),
            )];
        }
        return vec![];
    }
    match version_regression(&out.publications) {
        Some(d) => vec![Failure::new("version-decreased-under-schedule", show_scenario(&scenario), format!("schedule {sched:?}: {d}"), case_json(&scenario, &sched))],
        None => vec![],
    }
}

pub fn shrink_scenario(case: &Value) -> Vec<Value> {
    let scenario: Vec<usize> = case["scenario"].as_array().map(|a| a.iter().filter_map(|x| x.as_u64()).map(|x| x as usize).collect()).unwrap_or_default();
    tgv_core::shrink::deletions(&scenario).into_iter().map(|s| case_json(&s, &[])).collect()
}

impl Engine for C08 {
    fn id(&self) -> &'static str {
        "C08"
    }

    fn form(&self) -> Form {
        Form::S
    }

    fn rule(&self, tier: Tier) -> String {
        format!(
            "scenarios didOpen ; m2 [; m3 [; m4]] with m in {{didChange of the root document (alternating between two texts), didChange of the root document with the text it already has, didOpen/didChange of a second document (the root switches, the old root leaves the workspace), didOpen/didChange of a third document that nothing includes (its path is new to the server), didClose of the root document (which is on disk), definition, references, hover, documentSymbol, inlayHint, completion, documentLink, foldingRange}}: all {} scenarios; \
             for each, EVERY schedule of the schedule points (message start, file-table lock wants, salsa input writes, task start/finish) is executed on the real Server router with real salsa and the real tokio blocking pool, \
             depth-first over all choice sequences{}. states = distinct (parked threads, program counters, lock model) configurations at choice points; transitions = resumptions; non-trivial = schedules with at least one real choice.",
            tier.pick("13 two-message and 169 three-message", "13 + 169 + 2197 (two-, three- and four-message)"),
            tier.pick("", "; four-message scenarios do not re-expand an already expanded state (sound because handlers are straight-line between schedule points)")
        )
    }

    fn assumptions(&self) -> Vec<String> {
        vec![
            "locks that are not hooked (salsa's per-slot locks, the tokio pool queue, the unbounded client channel, the published-files mutex taken only by diagnostics tasks) are leaf locks".into(),
            "the file-table lock is modelled as writer-preferring (std::sync::RwLock on Linux: once a writer waits, new readers - including a reader re-entering the lock - queue behind it), which is the behaviour std documents as possible and this platform exhibits".into(),
            "the lock model (file-table writer/readers, snapshots alive) is asserted against reality at every Acquired/Done event; a disagreement is a machinery error, not a verdict".into(),
            "every execution starts with the handshake of a client that announces every capability; the client never answers a request of the server: a resumed task that neither reaches a schedule point nor ends within 6 s is modelled as waiting outside the schedule points (it keeps what it holds, the others go on; no verdict by itself), the main loop not coming back within 15 s is the verdict `stall`".into(),
            "the async-lsp layers of main.rs other than the router (ConcurrencyLayer etc.) and memory-ordering effects are not explored".into(),
        ]
    }

    fn trace_always(&self) -> bool {
        true
    }

    fn explore(&self, tier: Tier, ctx: &mut Ctx) {
        let dir = session_dir("C08", ctx.shard);
        let m = menu_len();
        let max_len = tier.pick(2, 3);
        let mut word = Vec::new();
        let total = tgv_core::words::count_upto(m as u64, max_len);
        for idx in 1..total {
            if !ctx.is_mine(idx) {
                continue;
            }
            tgv_core::words::decode(idx, m as u64, max_len, &mut word);
            if !explore_scenario(&word, &dir, true, ctx) {
                break;
            }
        }
        let _ = std::fs::remove_dir_all(&dir);
    }

    fn eval_case(&self, case: &Value) -> Vec<Failure> {
        let scenario: Vec<usize> = case["scenario"].as_array().map(|a| a.iter().filter_map(|x| x.as_u64()).map(|x| x as usize).collect()).unwrap_or_default();
        let schedule: Vec<usize> = case["schedule"].as_array().map(|a| a.iter().filter_map(|x| x.as_u64()).map(|x| x as usize).collect()).unwrap_or_default();
        let dir = session_dir("C08", 99);
        let out = execute(&scenario, &schedule, &dir);
        let _ = std::fs::remove_dir_all(&dir);
        let mut v = Vec::new();
        let sched: Vec<usize> = out.choices.iter().map(|(_, c)| *c).collect();
        if let Some(d) = out.deadlock {
            v.push(Failure::new("deadlock", show_scenario(&scenario), format!("schedule {sched:?}: {d}"), case_json(&scenario, &sched)));
        }
        if let Some((c, d)) = out.problem {
            v.push(Failure::new(&c, show_scenario(&scenario), format!("schedule {sched:?}: {d}"), case_json(&scenario, &sched)));
        }
        v
    }

    fn shrink(&self, case: &Value, _clause: &str) -> Vec<Value> {
        // a shorter scenario with the default (first-enabled) schedule
        let scenario: Vec<usize> = case["scenario"].as_array().map(|a| a.iter().filter_map(|x| x.as_u64()).map(|x| x as usize).collect()).unwrap_or_default();
        tgv_core::shrink::deletions(&scenario).into_iter().map(|s| case_json(&s, &[])).collect()
    }
}
