pub mod c08;
pub mod c09;
pub mod c10;
pub mod c11;
pub mod refpos;
pub mod session;
