//! Reference position mapper, from the LSP specification (spec/positions.md):
//! lines end at LF, CRLF and CR and nowhere else; `character` counts UTF-16 code
//! units from the line start; a character past the line end denotes the line end.
//! Independent of ropey.

/// The unit of the `character` member of a position (LSP 3.17 `PositionEncodingKind`).
#[derive(Debug, Clone, Copy, PartialEq, Eq)]
pub enum Unit {
    Utf8,
    Utf16,
    Utf32,
}

impl Unit {
    /// The unit a server that announced `announced` (or nothing) uses.
    pub fn of(announced: Option<&str>) -> Option<Unit> {
        match announced {
            None | Some("utf-16") => Some(Unit::Utf16),
            Some("utf-8") => Some(Unit::Utf8),
            Some("utf-32") => Some(Unit::Utf32),
            Some(_) => None,
        }
    }
}

#[derive(Debug, Clone)]
pub struct RefLines {
    /// (start of the line, end of its content before the terminator) in bytes
    pub lines: Vec<(usize, usize)>,
}

impl RefLines {
    pub fn new(text: &str) -> Self {
        let b = text.as_bytes();
        let mut lines = Vec::new();
        let mut start = 0;
        let mut i = 0;
        while i < b.len() {
            match b[i] {
                b'\n' => {
                    lines.push((start, i));
                    i += 1;
                    start = i;
                }
                b'\r' => {
                    lines.push((start, i));
                    i += if b.get(i + 1) == Some(&b'\n') { 2 } else { 1 };
                    start = i;
                }
                _ => i += 1,
            }
        }
        lines.push((start, b.len()));
        RefLines { lines }
    }

    /// Offsets strictly inside a CRLF pair have no position of their own.
    pub fn inside_crlf(text: &str, offset: usize) -> bool {
        let b = text.as_bytes();
        offset > 0 && offset < b.len() && b[offset - 1] == b'\r' && b[offset] == b'\n'
    }

    /// (line, column in the given unit) of a byte offset on a character boundary.
    pub fn position_in(&self, text: &str, offset: usize, unit: Unit) -> (u32, u32) {
        let (line, _) = self.position(text, offset);
        let (start, _) = self.lines[line as usize];
        let col: usize = match unit {
            Unit::Utf8 => offset - start,
            Unit::Utf16 => text[start..offset].chars().map(|c| c.len_utf16()).sum(),
            Unit::Utf32 => text[start..offset].chars().count(),
        };
        (line, col as u32)
    }

    /// (line, UTF-16 column) of a byte offset on a character boundary.
    pub fn position(&self, text: &str, offset: usize) -> (u32, u32) {
        let line = match self.lines.binary_search_by(|(s, _)| s.cmp(&offset)) {
            Ok(i) => i,
            Err(i) => i - 1,
        };
        let (start, _) = self.lines[line];
        let col: usize = text[start..offset].chars().map(|c| c.len_utf16()).sum();
        (line as u32, col as u32)
    }

    /// Byte offset of (line, UTF-16 column); None when the column falls inside a
    /// surrogate pair or the line does not exist (the property is silent there).
    pub fn offset(&self, text: &str, line: u32, col: u32) -> Option<usize> {
        let (start, end) = *self.lines.get(line as usize)?;
        let mut cu = 0u32;
        let mut off = start;
        for c in text[start..end].chars() {
            if cu == col {
                return Some(off);
            }
            if cu > col {
                return None;
            }
            cu += c.len_utf16() as u32;
            off += c.len_utf8();
        }
        if cu > col {
            return None; // inside the last surrogate pair
        }
        Some(end) // at or past the end of the line: the line end
    }

    pub fn line_len_utf16(&self, text: &str, line: usize) -> u32 {
        let (s, e) = self.lines[line];
        text[s..e].chars().map(|c| c.len_utf16() as u32).sum()
    }
}
