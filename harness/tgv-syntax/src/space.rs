//! The shared input space of the syntax-level engines (DESIGN §3.1, §3.6):
//! Σ-words, seed programs and corpus files with their prefixes, token-level
//! mutations, CRLF / non-ASCII variants, nesting towers and opener insertions.

use std::fs;
use std::path::PathBuf;

use tgv_core::runner::{root, Ctx, Tier};
use tgv_core::words;

/// One or two concrete lexemes per shape the lexer, preprocessor or parser branches on.
pub const SIGMA: &[&str] = &[
    // punctuation
    "-", "+", "[", "]", "{", "}", "(", ")", "<", ">", ":", ";", ",", ".", "=", "?", "#", "...",
    // keywords
    "assert", "bit", "bits", "class", "code", "dag", "def", "defm", "defset", "defvar", "dump", "else", "field",
    "foreach", "if", "in", "include", "int", "let", "list", "multiclass", "string", "then", "true", "false",
    // identifiers, literals, operators
    "x", "1", "0b1", "\"s\"", "[{c}]", "$v", "!add", "!cast", "!cond", "!foreach",
    // trivia
    " ", "\n", "\r\n", "//c\n", "//c", "/*c*/",
    // integers at the edges of the types they are read into
    "-9223372036854775808", "9223372036854775808", "18446744073709551616",
    // lexical error shapes
    "\"u", "[{u", "/*u", "..", "!zz", "0x", "@", "é", "\u{a0}", "\u{feff}", "$", "*", "\0",
    // preprocessor shapes
    "#ifdef A", "#ifndef A", "#else", "#endif", "#define A", "#ifdef",
];

/// Reduced alphabet for one more symbol of depth.
pub const CORE: &[&str] = &[
    "{", "}", "(", ")", "<", ">", "[", "]", ":", ";", ",", "=", "#", "class", "def", "let", "in", "foreach", "if",
    "then", "else", "int", "x", "1", "\"s\"", " ", "\n", "//c", "/*u", "\"u", "#ifdef A", "#else", "#endif", "@",
    "é",
];

pub const JOINERS: &[&str] = &[" ", "", "\n"];

pub fn is_special(sym: &str) -> bool {
    // trivia, lexical-error and preprocessor symbols make a word non-trivial for C01/C02
    let first = sym.chars().next().unwrap_or(' ');
    sym.starts_with("//")
        || sym.starts_with("/*")
        || sym.starts_with('#') && sym.len() > 1
        || sym.trim().is_empty()
        || sym.starts_with("\"u")
        || sym.starts_with("[{u")
        || matches!(sym, ".." | "!zz" | "0x" | "@" | "$" | "*")
        || !first.is_ascii()
}

pub fn join(alphabet: &[&str], word: &[usize], joiner: &str, out: &mut String) {
    out.clear();
    for (i, &s) in word.iter().enumerate() {
        if i > 0 {
            out.push_str(joiner);
        }
        out.push_str(alphabet[s]);
    }
}

#[derive(Debug, Clone, Copy, PartialEq, Eq)]
pub enum Stratum {
    Word,
    Seed,
    Prefix,
    Mutation,
    Variant,
    Tower,
    Opener,
    Repetition,
    Sentence,
    IntegerPosition,
}

impl Stratum {
    pub fn name(self) -> &'static str {
        match self {
            Stratum::Word => "word",
            Stratum::Seed => "seed",
            Stratum::Prefix => "prefix",
            Stratum::Mutation => "mutation",
            Stratum::Variant => "variant",
            Stratum::Tower => "tower",
            Stratum::Opener => "opener",
            Stratum::Repetition => "repetition",
            Stratum::Sentence => "sentence",
            Stratum::IntegerPosition => "integer-position",
        }
    }
}

pub struct Files {
    pub seeds: Vec<(String, String)>,
    pub corpus: Vec<(String, String)>,
}

fn read_dir_sorted(dir: PathBuf) -> Vec<(String, String)> {
    let mut v: Vec<(String, String)> = fs::read_dir(&dir)
        .unwrap_or_else(|e| panic!("cannot read {}: {e}", dir.display()))
        .filter_map(|e| e.ok())
        .filter(|e| e.path().extension().map(|x| x == "td").unwrap_or(false))
        .map(|e| {
            let name = e.file_name().to_string_lossy().to_string();
            let text = fs::read_to_string(e.path()).expect("corpus file is UTF-8");
            (name, text)
        })
        .collect();
    v.sort();
    v
}

pub fn files() -> Files {
    Files {
        seeds: read_dir_sorted(root().join("corpus/seeds")),
        corpus: read_dir_sorted(root().join("corpus/llvm14")),
    }
}

/// Lexeme boundaries of a text by a deliberately crude splitter (used only to
/// choose mutation sites, never as an oracle): identifiers/numbers, strings,
/// code blocks, comments, whitespace runs, single other characters.
pub fn crude_tokens(text: &str) -> Vec<(usize, usize)> {
    let b = text.as_bytes();
    let mut out = Vec::new();
    let mut i = 0;
    while i < b.len() {
        let start = i;
        let c = b[i];
        if c.is_ascii_alphanumeric() || c == b'_' {
            while i < b.len() && (b[i].is_ascii_alphanumeric() || b[i] == b'_') {
                i += 1;
            }
        } else if c.is_ascii_whitespace() {
            while i < b.len() && b[i].is_ascii_whitespace() {
                i += 1;
            }
        } else if c == b'"' {
            i += 1;
            while i < b.len() && b[i] != b'"' && b[i] != b'\n' {
                if b[i] == b'\\' {
                    i += 1;
                }
                i += 1;
            }
            i = (i + 1).min(b.len());
        } else if b[i..].starts_with(b"//") {
            while i < b.len() && b[i] != b'\n' {
                i += 1;
            }
        } else if b[i..].starts_with(b"/*") {
            match text[i + 2..].find("*/") {
                Some(p) => i = i + 2 + p + 2,
                None => i = b.len(),
            }
        } else if b[i..].starts_with(b"[{") {
            match text[i + 2..].find("}]") {
                Some(p) => i = i + 2 + p + 2,
                None => i = b.len(),
            }
        } else if b[i..].starts_with(b"...") {
            i += 3;
        } else if c == b'!' || c == b'$' || c == b'#' {
            i += 1;
            while i < b.len() && b[i].is_ascii_alphabetic() {
                i += 1;
            }
        } else {
            // one (possibly multi-byte) character
            let ch = text[i..].chars().next().unwrap();
            i += ch.len_utf8();
        }
        while !text.is_char_boundary(i) {
            i += 1;
        }
        out.push((start, i));
    }
    out
}

/// The text with `filler` inserted after every identifier-like token outside strings and comments
/// (the layout in which every name is followed by trivia). Preprocessor lines are left alone.
pub fn spaced(text: &str, filler: &str) -> String {
    let mut out = String::with_capacity(text.len() * 2);
    let mut line_is_directive = false;
    for (s, e) in crude_tokens(text) {
        let t = &text[s..e];
        if t.contains('\n') {
            line_is_directive = false;
        }
        if t.starts_with('#') && t.len() > 1 {
            line_is_directive = true;
        }
        out.push_str(t);
        let first = t.as_bytes()[0];
        if !line_is_directive && (first.is_ascii_alphabetic() || first == b'_') {
            out.push_str(filler);
        }
    }
    out
}

pub const MUTATION_TOKENS: &[&str] = &["x", "1", ";", "{", "}", "<", ">", "(", ":", "=", "class", "\"u", "#ifdef A", "@", "/*u", ","];

/// Every single-token deletion, duplication, adjacent transposition and
/// replacement by each of `MUTATION_TOKENS`, over the non-whitespace crude tokens.
pub fn token_mutations(text: &str, mut f: impl FnMut(&str) -> bool) {
    let toks: Vec<(usize, usize)> = crude_tokens(text)
        .into_iter()
        .filter(|&(s, e)| !text[s..e].trim().is_empty())
        .collect();
    let mut buf = String::with_capacity(text.len() + 16);
    for (k, &(s, e)) in toks.iter().enumerate() {
        // deletion
        buf.clear();
        buf.push_str(&text[..s]);
        buf.push_str(&text[e..]);
        if !f(&buf) {
            return;
        }
        // duplication
        buf.clear();
        buf.push_str(&text[..e]);
        buf.push(' ');
        buf.push_str(&text[s..]);
        if !f(&buf) {
            return;
        }
        // transposition with the next token
        if let Some(&(s2, e2)) = toks.get(k + 1) {
            buf.clear();
            buf.push_str(&text[..s]);
            buf.push_str(&text[s2..e2]);
            buf.push_str(&text[e..s2]);
            buf.push_str(&text[s..e]);
            buf.push_str(&text[e2..]);
            if !f(&buf) {
                return;
            }
        }
        for r in MUTATION_TOKENS {
            buf.clear();
            buf.push_str(&text[..s]);
            buf.push_str(r);
            buf.push_str(&text[e..]);
            if !f(&buf) {
                return;
            }
        }
    }
}

/// CRLF line ends; `é` / U+2028 injected into the first comment, first string
/// and between the first two tokens.
pub fn variants(text: &str, mut f: impl FnMut(&str) -> bool) {
    let crlf = text.replace("\r\n", "\n").replace('\n', "\r\n");
    if !f(&crlf) {
        return;
    }
    for inj in ["é", "\u{2028}", "😀"] {
        let toks = crude_tokens(text);
        let mut done_comment = false;
        let mut done_string = false;
        let mut done_between = false;
        for &(s, e) in &toks {
            let t = &text[s..e];
            let at = if !done_comment && (t.starts_with("//") || t.starts_with("/*")) {
                done_comment = true;
                Some(s + 2)
            } else if !done_string && t.starts_with('"') && t.len() >= 2 {
                done_string = true;
                Some(s + 1)
            } else if !done_between && t.trim().is_empty() {
                done_between = true;
                Some(s)
            } else {
                None
            };
            if let Some(at) = at {
                let mut v = String::with_capacity(text.len() + 4);
                v.push_str(&text[..at]);
                v.push_str(inj);
                v.push_str(&text[at..]);
                if !f(&v) {
                    return;
                }
            }
        }
    }
}

/// Σ-word strata. Quick: L ≤ 3 over Σ and L = 4 over CORE; thorough: L ≤ 4 over Σ, L = 5 over CORE.
pub fn for_each_word(tier: Tier, ctx: &mut Ctx, mut f: impl FnMut(&mut Ctx, &str, bool) -> bool) {
    let mut text = String::new();
    let plans: [(&[&str], u32, u32); 2] = [
        (SIGMA, 0, tier.pick(3, 4)),
        (CORE, tier.pick(4, 5), tier.pick(4, 5)),
    ];
    for (alphabet, min_len, max_len) in plans {
        let (shard, n) = (ctx.shard, ctx.nshards);
        let mut stop = false;
        words::for_each_word(alphabet.len(), max_len, shard, n, |_, w| {
            if (w.len() as u32) < min_len {
                return true;
            }
            let special = w.iter().any(|&s| is_special(alphabet[s]));
            for j in JOINERS {
                if w.len() < 2 && !j.is_empty() {
                    // joiners only matter between symbols
                    if *j != " " {
                        continue;
                    }
                }
                join(alphabet, w, j, &mut text);
                if !f(ctx, &text, special) {
                    stop = true;
                    return false;
                }
            }
            true
        });
        if stop {
            return;
        }
    }
}

/// Seeds and corpus files, their prefixes, token mutations and variants.
/// Every place of the grammar that takes an integer (bit ranges, slices, foreach ranges, bits widths, values,
/// parameter defaults), with every spelling of a sign, a separator and an edge-of-range literal there.
pub fn integer_position_texts() -> Vec<String> {
    let separators = ["-", "+", " -", " +", "- ", "+ ", "...", " ... ", "-+", "--", "+-", " "];
    let pairs = ["defvar x = a{7@4};", "defvar x = l[0@2];", "let X{3@1} = 1 in def d;", "def d : C { let X{3@1} = 1; }", "foreach i = 0@2 in def d;", "foreach i = {1@4} in def d;", "def d { bits<8> b; bit c = b{0@1, 2@3}; }"];
    let ints = ["-1", "+1", "-0", "+0", "-9223372036854775808", "9223372036854775807", "9223372036854775808", "18446744073709551615", "18446744073709551616", "0x8000000000000000", "0xFFFFFFFFFFFFFFFFF", "0b11", "-0b1", "+0x1", "007"];
    let singles = ["defvar x = a{@};", "defvar x = l[@];", "def d { bits<@> b; }", "def d { int x = @; }", "class C<int a = @>;", "foreach i = [@] in def d;", "def d : C<@>;", "defvar x = !add(@, @);", "let X{@} = 1 in def d;"];
    let mut out = Vec::new();
    for t in pairs {
        for s in separators {
            out.push(t.replace('@', s));
        }
    }
    for t in singles {
        for i in ints {
            out.push(t.replace('@', i));
        }
    }
    out
}

pub fn for_each_program_text(tier: Tier, ctx: &mut Ctx, files: &Files, mut f: impl FnMut(&mut Ctx, &str, Stratum) -> bool) {
    let small_limit = 8 * 1024;
    for text in integer_position_texts() {
        if ctx.mine() && !f(ctx, &text, Stratum::IntegerPosition) {
            return;
        }
    }
    // whole files
    for (_, text) in files.seeds.iter().chain(files.corpus.iter()) {
        if ctx.mine() && !f(ctx, text, Stratum::Seed) {
            return;
        }
    }
    // prefixes: every character boundary of the small files
    for (_, text) in files.seeds.iter().chain(files.corpus.iter().filter(|(_, t)| t.len() <= small_limit)) {
        for (i, _) in text.char_indices() {
            if ctx.mine() && !f(ctx, &text[..i], Stratum::Prefix) {
                return;
            }
        }
    }
    // prefixes: line boundaries of the big corpus files (thorough: all; quick: files up to 32 KiB)
    let big_limit = tier.pick(32 * 1024, usize::MAX);
    for (_, text) in files.corpus.iter().filter(|(_, t)| t.len() > small_limit && t.len() <= big_limit) {
        for (i, _) in text.match_indices('\n') {
            if ctx.mine() && !f(ctx, &text[..i + 1], Stratum::Prefix) {
                return;
            }
        }
    }
    // token mutations of the seeds (and, thorough, of the small corpus files)
    let mutated: Vec<&(String, String)> = match tier {
        Tier::Quick => files.seeds.iter().collect(),
        Tier::Thorough => files
            .seeds
            .iter()
            .chain(files.corpus.iter().filter(|(_, t)| t.len() <= small_limit))
            .collect(),
    };
    let mut stop = false;
    for (_, text) in mutated {
        token_mutations(text, |m| {
            if ctx.mine() && !f(ctx, m, Stratum::Mutation) {
                stop = true;
                return false;
            }
            true
        });
        if stop {
            return;
        }
    }
    // variants of seeds and small corpus files
    for (_, text) in files.seeds.iter().chain(files.corpus.iter().filter(|(_, t)| t.len() <= small_limit)) {
        variants(text, |v| {
            if ctx.mine() && !f(ctx, v, Stratum::Variant) {
                stop = true;
                return false;
            }
            true
        });
        if stop {
            return;
        }
    }
}
