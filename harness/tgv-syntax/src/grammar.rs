//! The documented grammar as data (spec/grammar_gen.bnf, spec/grammar_rec.bnf):
//! an EBNF reader, an Earley recogniser over token kinds, and an exhaustive
//! enumerator of derivation trees by yield length.

use std::collections::{BTreeMap, HashMap, HashSet};

pub const GEN_BNF: &str = include_str!("../../../spec/grammar_gen.bnf");
pub const REC_BNF: &str = include_str!("../../../spec/grammar_rec.bnf");

#[derive(Debug, Clone, Copy, PartialEq, Eq, Hash, PartialOrd, Ord)]
pub enum Sym {
    T(usize),
    N(usize),
}

#[derive(Debug, Clone)]
pub struct Grammar {
    pub terminals: Vec<String>,
    pub nonterminals: Vec<String>,
    /// per nonterminal: alternatives
    pub rules: Vec<Vec<Vec<Sym>>>,
    pub start: usize,
    nullable: Vec<bool>,
}

#[derive(Debug, Clone, PartialEq)]
enum Tok {
    Ident(String),
    Lit(String),
    Def,
    Bar,
    LPar,
    RPar,
    Opt,
    Star,
    Plus,
}

fn lex_bnf(src: &str) -> Vec<Tok> {
    let mut out = Vec::new();
    for line in src.lines() {
        let line = match line.find('#') {
            // a '#' inside quotes is the paste token, not a comment
            Some(_) => {
                let mut in_q = false;
                let mut cut = line.len();
                for (i, c) in line.char_indices() {
                    if c == '"' {
                        in_q = !in_q;
                    } else if c == '#' && !in_q {
                        cut = i;
                        break;
                    }
                }
                &line[..cut]
            }
            None => line,
        };
        let b: Vec<char> = line.chars().collect();
        let mut i = 0;
        while i < b.len() {
            let c = b[i];
            if c.is_whitespace() {
                i += 1;
            } else if c == '"' {
                let mut j = i + 1;
                while j < b.len() && b[j] != '"' {
                    j += 1;
                }
                out.push(Tok::Lit(b[i + 1..j].iter().collect()));
                i = j + 1;
            } else if c == ':' && b.get(i + 1) == Some(&':') && b.get(i + 2) == Some(&'=') {
                out.push(Tok::Def);
                i += 3;
            } else if c == '|' {
                out.push(Tok::Bar);
                i += 1;
            } else if c == '(' {
                out.push(Tok::LPar);
                i += 1;
            } else if c == ')' {
                out.push(Tok::RPar);
                i += 1;
            } else if c == '?' {
                out.push(Tok::Opt);
                i += 1;
            } else if c == '*' {
                out.push(Tok::Star);
                i += 1;
            } else if c == '+' {
                out.push(Tok::Plus);
                i += 1;
            } else if c.is_alphanumeric() || c == '_' {
                let mut j = i;
                while j < b.len() && (b[j].is_alphanumeric() || b[j] == '_') {
                    j += 1;
                }
                out.push(Tok::Ident(b[i..j].iter().collect()));
                i = j;
            } else {
                panic!("bad character {c:?} in grammar file");
            }
        }
    }
    out
}

struct Builder {
    terminals: Vec<String>,
    tindex: HashMap<String, usize>,
    nonterminals: Vec<String>,
    nindex: HashMap<String, usize>,
    rules: Vec<Vec<Vec<Sym>>>,
    fresh: usize,
}

impl Builder {
    fn t(&mut self, name: &str) -> Sym {
        if let Some(i) = self.tindex.get(name) {
            return Sym::T(*i);
        }
        let i = self.terminals.len();
        self.terminals.push(name.to_string());
        self.tindex.insert(name.to_string(), i);
        Sym::T(i)
    }
    fn n(&mut self, name: &str) -> usize {
        if let Some(i) = self.nindex.get(name) {
            return *i;
        }
        let i = self.nonterminals.len();
        self.nonterminals.push(name.to_string());
        self.nindex.insert(name.to_string(), i);
        self.rules.push(Vec::new());
        i
    }
    fn fresh(&mut self, what: &str) -> usize {
        self.fresh += 1;
        let name = format!("_{what}{}", self.fresh);
        self.n(&name)
    }

    /// alternatives := sequence ( "|" sequence )*
    fn alternatives(&mut self, toks: &[Tok], pos: &mut usize) -> Vec<Vec<Sym>> {
        let mut alts = vec![self.sequence(toks, pos)];
        while toks.get(*pos) == Some(&Tok::Bar) {
            *pos += 1;
            alts.push(self.sequence(toks, pos));
        }
        alts
    }

    fn sequence(&mut self, toks: &[Tok], pos: &mut usize) -> Vec<Sym> {
        let mut seq = Vec::new();
        loop {
            let atom = match toks.get(*pos) {
                Some(Tok::Lit(s)) => {
                    *pos += 1;
                    self.t(s)
                }
                Some(Tok::Ident(s)) => {
                    // a new rule starts here
                    if toks.get(*pos + 1) == Some(&Tok::Def) {
                        break;
                    }
                    *pos += 1;
                    if s.chars().all(|c| c.is_ascii_uppercase()) {
                        self.t(s)
                    } else {
                        Sym::N(self.n(s))
                    }
                }
                Some(Tok::LPar) => {
                    *pos += 1;
                    let alts = self.alternatives(toks, pos);
                    assert_eq!(toks.get(*pos), Some(&Tok::RPar), "missing ')' in grammar");
                    *pos += 1;
                    let g = self.fresh("grp");
                    self.rules[g] = alts;
                    Sym::N(g)
                }
                _ => break,
            };
            // postfix operators
            let mut atom = atom;
            loop {
                match toks.get(*pos) {
                    Some(Tok::Opt) => {
                        *pos += 1;
                        let o = self.fresh("opt");
                        self.rules[o] = vec![vec![], vec![atom]];
                        atom = Sym::N(o);
                    }
                    Some(Tok::Star) => {
                        *pos += 1;
                        let o = self.fresh("star");
                        self.rules[o] = vec![vec![], vec![atom, Sym::N(o)]];
                        atom = Sym::N(o);
                    }
                    Some(Tok::Plus) => {
                        *pos += 1;
                        let st = self.fresh("star");
                        self.rules[st] = vec![vec![], vec![atom, Sym::N(st)]];
                        let o = self.fresh("plus");
                        self.rules[o] = vec![vec![atom, Sym::N(st)]];
                        atom = Sym::N(o);
                    }
                    _ => break,
                }
            }
            seq.push(atom);
        }
        seq
    }
}

impl Grammar {
    pub fn parse(src: &str, start: &str) -> Grammar {
        let toks = lex_bnf(src);
        let mut b = Builder { terminals: vec![], tindex: HashMap::new(), nonterminals: vec![], nindex: HashMap::new(), rules: vec![], fresh: 0 };
        let mut pos = 0;
        while pos < toks.len() {
            let Tok::Ident(name) = &toks[pos] else { panic!("expected a rule name at token {pos}: {:?}", toks[pos]) };
            assert_eq!(toks.get(pos + 1), Some(&Tok::Def), "expected '::=' after {name}");
            pos += 2;
            let n = b.n(name);
            let alts = b.alternatives(&toks, &mut pos);
            assert!(b.rules[n].is_empty(), "rule {name} defined twice");
            b.rules[n] = alts;
        }
        for (i, r) in b.rules.iter().enumerate() {
            assert!(!r.is_empty(), "nonterminal {} has no rule", b.nonterminals[i]);
        }
        let start = *b.nindex.get(start).unwrap_or_else(|| panic!("no start symbol {start}"));
        let mut g = Grammar { terminals: b.terminals, nonterminals: b.nonterminals, rules: b.rules, start, nullable: vec![] };
        g.compute_nullable();
        g
    }

    fn compute_nullable(&mut self) {
        let mut nullable = vec![false; self.nonterminals.len()];
        loop {
            let mut changed = false;
            for (n, alts) in self.rules.iter().enumerate() {
                if !nullable[n] && alts.iter().any(|alt| alt.iter().all(|s| matches!(s, Sym::N(m) if nullable[*m]))) {
                    nullable[n] = true;
                    changed = true;
                }
            }
            if !changed {
                break;
            }
        }
        self.nullable = nullable;
    }

    pub fn nt(&self, name: &str) -> usize {
        self.nonterminals.iter().position(|n| n == name).unwrap_or_else(|| panic!("no nonterminal {name}"))
    }

    pub fn terminal(&self, name: &str) -> Option<usize> {
        self.terminals.iter().position(|n| n == name)
    }

    /// The same grammar with every right-hand-side occurrence of `from` replaced by `to`
    /// (except inside the rules of `to` and its plugs), and a new start symbol.
    pub fn substituted(&self, subst: &[(&str, &str)], start: &str) -> Grammar {
        let map: Vec<(usize, usize)> = subst.iter().map(|(a, b)| (self.nt(a), self.nt(b))).collect();
        let mut g = self.clone();
        for alts in g.rules.iter_mut() {
            for alt in alts.iter_mut() {
                for s in alt.iter_mut() {
                    if let Sym::N(n) = s {
                        if let Some((_, to)) = map.iter().find(|(from, _)| from == n) {
                            *s = Sym::N(*to);
                        }
                    }
                }
            }
        }
        g.start = g.nt(start);
        g.compute_nullable();
        g
    }

    /// Node kind of a nonterminal: the part of the name before '_'; None for transparent helpers.
    pub fn kind_of(&self, n: usize) -> Option<&str> {
        let name = &self.nonterminals[n];
        if name.starts_with('_') {
            None
        } else {
            Some(name.split('_').next().unwrap())
        }
    }

    // ---- Earley recognition ----------------------------------------------------------

    /// Is the terminal sequence a sentence of the grammar (from its start symbol)?
    pub fn recognises(&self, word: &[usize]) -> bool {
        #[derive(Clone, Copy, PartialEq, Eq, Hash)]
        struct Item {
            nt: u32,
            alt: u32,
            dot: u32,
            origin: u32,
        }
        let n = word.len();
        let mut sets: Vec<Vec<Item>> = vec![Vec::new(); n + 1];
        let mut seen: Vec<HashSet<Item>> = vec![HashSet::new(); n + 1];
        let add = |sets: &mut Vec<Vec<Item>>, seen: &mut Vec<HashSet<Item>>, k: usize, it: Item| {
            if seen[k].insert(it) {
                sets[k].push(it);
            }
        };
        for alt in 0..self.rules[self.start].len() {
            add(&mut sets, &mut seen, 0, Item { nt: self.start as u32, alt: alt as u32, dot: 0, origin: 0 });
        }
        for k in 0..=n {
            let mut i = 0;
            while i < sets[k].len() {
                let it = sets[k][i];
                i += 1;
                let rhs = &self.rules[it.nt as usize][it.alt as usize];
                if (it.dot as usize) < rhs.len() {
                    match rhs[it.dot as usize] {
                        Sym::T(t) => {
                            if k < n && word[k] == t {
                                add(&mut sets, &mut seen, k + 1, Item { dot: it.dot + 1, ..it });
                            }
                        }
                        Sym::N(m) => {
                            for alt in 0..self.rules[m].len() {
                                add(&mut sets, &mut seen, k, Item { nt: m as u32, alt: alt as u32, dot: 0, origin: k as u32 });
                            }
                            if self.nullable[m] {
                                add(&mut sets, &mut seen, k, Item { dot: it.dot + 1, ..it });
                            }
                        }
                    }
                } else {
                    // completion
                    let origin = it.origin as usize;
                    let mut j = 0;
                    while j < sets[origin].len() {
                        let p = sets[origin][j];
                        j += 1;
                        let prhs = &self.rules[p.nt as usize][p.alt as usize];
                        if (p.dot as usize) < prhs.len() && prhs[p.dot as usize] == Sym::N(it.nt as usize) {
                            add(&mut sets, &mut seen, k, Item { dot: p.dot + 1, ..p });
                        }
                    }
                }
            }
        }
        sets[n].iter().any(|it| it.nt as usize == self.start && it.origin == 0 && it.dot as usize == self.rules[self.start][it.alt as usize].len())
    }
}

// ---- derivation trees ------------------------------------------------------------------

#[derive(Debug, Clone, PartialEq, Eq)]
pub enum Tree {
    Tok(usize),
    Node(usize, Vec<Tree>),
}

impl Tree {
    pub fn yield_into(&self, out: &mut Vec<usize>) {
        match self {
            Tree::Tok(t) => out.push(*t),
            Tree::Node(_, cs) => cs.iter().for_each(|c| c.yield_into(out)),
        }
    }
}

/// All derivation trees of every nonterminal by exact yield length, up to `max_len`,
/// with a cap on the number of trees kept per (nonterminal, length).
pub struct Enumerator<'g> {
    g: &'g Grammar,
    memo: HashMap<(usize, usize), std::rc::Rc<Vec<Tree>>>,
    in_progress: HashSet<(usize, usize)>,
    pub cap: usize,
    pub capped: bool,
}

impl<'g> Enumerator<'g> {
    pub fn new(g: &'g Grammar, cap: usize) -> Self {
        Enumerator { g, memo: HashMap::new(), in_progress: HashSet::new(), cap, capped: false }
    }

    pub fn trees(&mut self, nt: usize, len: usize) -> std::rc::Rc<Vec<Tree>> {
        if let Some(v) = self.memo.get(&(nt, len)) {
            return v.clone();
        }
        if !self.in_progress.insert((nt, len)) {
            // left recursion through nullable prefixes: no finite derivation on this path
            return std::rc::Rc::new(Vec::new());
        }
        let mut out: Vec<Tree> = Vec::new();
        let alts = self.g.rules[nt].clone();
        for alt in &alts {
            let seqs = self.sequences(alt, len);
            for children in seqs {
                out.push(Tree::Node(nt, children));
                if out.len() >= self.cap {
                    self.capped = true;
                    break;
                }
            }
            if out.len() >= self.cap {
                break;
            }
        }
        self.in_progress.remove(&(nt, len));
        let rc = std::rc::Rc::new(out);
        self.memo.insert((nt, len), rc.clone());
        rc
    }

    /// all ways to derive exactly `len` tokens from a symbol sequence
    fn sequences(&mut self, syms: &[Sym], len: usize) -> Vec<Vec<Tree>> {
        if syms.is_empty() {
            return if len == 0 { vec![vec![]] } else { vec![] };
        }
        let min_rest: usize = syms[1..].iter().map(|s| self.min_len(*s)).sum();
        let mut out = Vec::new();
        match syms[0] {
            Sym::T(t) => {
                if len >= 1 && len - 1 >= min_rest {
                    for mut rest in self.sequences(&syms[1..], len - 1) {
                        let mut v = vec![Tree::Tok(t)];
                        v.append(&mut rest);
                        out.push(v);
                        if out.len() >= self.cap {
                            self.capped = true;
                            break;
                        }
                    }
                }
            }
            Sym::N(n) => {
                let lo = self.min_len(Sym::N(n));
                for first in lo..=len.saturating_sub(min_rest) {
                    let heads = self.trees(n, first);
                    if heads.is_empty() {
                        continue;
                    }
                    let rests = self.sequences(&syms[1..], len - first);
                    'outer: for h in heads.iter() {
                        for r in &rests {
                            let mut v = Vec::with_capacity(1 + r.len());
                            v.push(h.clone());
                            v.extend(r.iter().cloned());
                            out.push(v);
                            if out.len() >= self.cap {
                                self.capped = true;
                                break 'outer;
                            }
                        }
                    }
                    if out.len() >= self.cap {
                        break;
                    }
                }
            }
        }
        out
    }

    fn min_len(&mut self, s: Sym) -> usize {
        match s {
            Sym::T(_) => 1,
            Sym::N(n) => self.min_len_nt(n),
        }
    }

    fn min_len_nt(&mut self, n: usize) -> usize {
        // fixpoint over all nonterminals, computed once
        thread_local! {
            static CACHE: std::cell::RefCell<BTreeMap<usize, Vec<usize>>> = const { std::cell::RefCell::new(BTreeMap::new()) };
        }
        let key = self.g as *const Grammar as usize;
        let g = self.g;
        CACHE.with(|c| {
            let mut c = c.borrow_mut();
            let v = c.entry(key).or_insert_with(|| {
                let mut m = vec![usize::MAX / 4; g.nonterminals.len()];
                loop {
                    let mut changed = false;
                    for (i, alts) in g.rules.iter().enumerate() {
                        for alt in alts {
                            let l: usize = alt.iter().map(|s| match s { Sym::T(_) => 1, Sym::N(k) => m[*k] }).fold(0usize, |a, b| a.saturating_add(b));
                            if l < m[i] {
                                m[i] = l;
                                changed = true;
                            }
                        }
                    }
                    if !changed {
                        break;
                    }
                }
                m
            });
            v[n]
        })
    }
}

#[cfg(test)]
mod tests {
    use super::*;

    #[test]
    fn grammars_load_and_recognise() {
        let gen = Grammar::parse(GEN_BNF, "SourceFile");
        let rec = Grammar::parse(REC_BNF, "SourceFile");
        let w = |g: &Grammar, toks: &[&str]| -> Vec<usize> { toks.iter().map(|t| g.terminal(t).unwrap_or(usize::MAX)).collect() };
        for g in [&gen, &rec] {
            assert!(g.recognises(&w(g, &["class", "ID", ";"])));
            assert!(g.recognises(&w(g, &[])));
            assert!(!g.recognises(&w(g, &["class", ";"])));
            assert!(g.recognises(&w(g, &["defvar", "ID", "=", "BANG", "(", "INT", ",", "ID", ")", ";"])));
        }
        assert!(rec.recognises(&w(&rec, &["defm", "ID", ";"])));
        assert!(!gen.recognises(&w(&gen, &["defm", "ID", ";"])));
    }
}
