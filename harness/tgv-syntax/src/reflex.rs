//! Reference lexer written from spec/lexical.md (LLVM TableGen Programmer's
//! Reference, "Lexical Analysis"), independent of crates/syntax/src/lexer.rs.

use syntax::token_kind::TokenKind as K;

#[derive(Debug, Clone, Copy, PartialEq, Eq)]
pub enum RefKind {
    Whitespace,
    LineComment,
    BlockComment,
    /// punctuation, keyword, bang operator or preprocessor directive, by spelling
    Fixed(&'static str),
    Id,
    Int,
    BinInt,
    Str,
    Code,
    Var,
    Invalid,
}

pub const PUNCT: &[(&str, K)] = &[
    ("-", K::Minus), ("+", K::Plus), ("[", K::LSquare), ("]", K::RSquare), ("{", K::LBrace), ("}", K::RBrace),
    ("(", K::LParen), (")", K::RParen), ("<", K::Less), (">", K::Greater), (":", K::Colon), (";", K::Semi),
    (",", K::Comma), (".", K::Dot), ("=", K::Equal), ("?", K::Question), ("#", K::Paste), ("...", K::DotDotDot),
];

pub const KEYWORDS: &[(&str, K)] = &[
    ("assert", K::Assert), ("bit", K::Bit), ("bits", K::Bits), ("class", K::Class), ("code", K::Code),
    ("dag", K::Dag), ("def", K::Def), ("dump", K::Dump), ("else", K::ElseKw), ("false", K::FalseVal),
    ("foreach", K::Foreach), ("defm", K::Defm), ("defset", K::Defset), ("defvar", K::Defvar), ("field", K::Field),
    ("if", K::If), ("in", K::In), ("include", K::Include), ("int", K::Int), ("let", K::Let),
    ("list", K::List), ("multiclass", K::MultiClass), ("string", K::String), ("then", K::Then), ("true", K::TrueVal),
];

/// The 52 operators of the pinned ProgRef revision plus !cond.
pub const BANGS: &[(&str, K)] = &[
    ("!add", K::XAdd), ("!and", K::XAnd), ("!cast", K::XCast), ("!con", K::XCon), ("!cond", K::XCond), ("!dag", K::XDag),
    ("!div", K::XDiv), ("!empty", K::XEmpty), ("!eq", K::XEq), ("!exists", K::XExists), ("!filter", K::XFilter),
    ("!find", K::XFind), ("!foldl", K::XFoldl), ("!foreach", K::XForEach), ("!ge", K::XGe),
    ("!getdagarg", K::XGetDagArg), ("!getdagname", K::XGetDagName), ("!getdagop", K::XGetDagOp), ("!gt", K::XGt),
    ("!head", K::XHead), ("!if", K::XIf), ("!initialized", K::XInitialized), ("!interleave", K::XInterleave),
    ("!isa", K::XIsA), ("!le", K::XLe), ("!listconcat", K::XListConcat), ("!listflatten", K::XListFlatten),
    ("!listremove", K::XListRemove), ("!listsplat", K::XListSplat), ("!logtwo", K::XLog2), ("!lt", K::XLt),
    ("!mul", K::XMul), ("!ne", K::XNe), ("!not", K::XNot), ("!or", K::XOr), ("!range", K::XRange), ("!repr", K::XRepr),
    ("!setdagarg", K::XSetDagArg), ("!setdagname", K::XSetDagName), ("!setdagop", K::XSetDagOp), ("!shl", K::XShl),
    ("!size", K::XSize), ("!sra", K::XSra), ("!srl", K::XSrl), ("!strconcat", K::XStrConcat), ("!sub", K::XSub),
    ("!subst", K::XSubst), ("!substr", K::XSubstr), ("!tail", K::XTail), ("!tolower", K::XToLower),
    ("!toupper", K::XToUpper), ("!xor", K::XXor),
];

pub const DIRECTIVES: &[(&str, K)] = &[
    ("#ifdef", K::Ifdef), ("#ifndef", K::Ifndef), ("#else", K::Else), ("#endif", K::Endif), ("#define", K::Define),
];

/// What the reference calls the token kind the real lexer returned.
pub fn classify(k: K) -> RefKind {
    for table in [PUNCT, KEYWORDS, BANGS, DIRECTIVES] {
        if let Some((s, _)) = table.iter().find(|(_, kk)| *kk == k) {
            return RefKind::Fixed(s);
        }
    }
    match k {
        K::Whitespace => RefKind::Whitespace,
        K::LineComment => RefKind::LineComment,
        K::BlockComment => RefKind::BlockComment,
        K::Id => RefKind::Id,
        K::IntVal => RefKind::Int,
        K::BinaryIntVal => RefKind::BinInt,
        K::StrVal => RefKind::Str,
        K::CodeFragment => RefKind::Code,
        K::VarName => RefKind::Var,
        _ => RefKind::Invalid,
    }
}

fn ualpha(c: u8) -> bool {
    c.is_ascii_alphabetic() || c == b'_'
}

fn idcont(c: u8) -> bool {
    c.is_ascii_alphanumeric() || c == b'_'
}

fn fixed(table: &'static [(&'static str, K)], s: &str) -> Option<RefKind> {
    table.iter().find(|(t, _)| *t == s).map(|(t, _)| RefKind::Fixed(t))
}

/// Lexes one token at `i`; returns (kind, end).
pub fn next(text: &str, i: usize) -> (RefKind, usize) {
    let b = text.as_bytes();
    let c = b[i];
    let at = |k: usize| b.get(k).copied().unwrap_or(0);
    // whitespace
    if matches!(c, b' ' | b'\t' | b'\n' | b'\r') {
        let mut j = i;
        while matches!(at(j), b' ' | b'\t' | b'\n' | b'\r') && j < b.len() {
            j += 1;
        }
        return (RefKind::Whitespace, j);
    }
    // comments
    if c == b'/' && at(i + 1) == b'/' {
        let mut j = i;
        while j < b.len() && b[j] != b'\n' && b[j] != b'\r' {
            j += 1;
        }
        return (RefKind::LineComment, j);
    }
    if c == b'/' && at(i + 1) == b'*' {
        // nestable C-style comments
        let mut depth = 1;
        let mut j = i + 2;
        while j < b.len() {
            if b[j] == b'/' && at(j + 1) == b'*' {
                depth += 1;
                j += 2;
            } else if b[j] == b'*' && at(j + 1) == b'/' {
                depth -= 1;
                j += 2;
                if depth == 0 {
                    return (RefKind::BlockComment, j);
                }
            } else {
                j += 1;
            }
        }
        return (RefKind::Invalid, b.len());
    }
    // numbers and digit-leading identifiers
    if c.is_ascii_digit() {
        let mut j = i;
        while at(j).is_ascii_digit() {
            j += 1;
        }
        // 0x<hex>+ and 0b<bin>+ are numbers ("in case of ambiguity ... a numeric literal")
        if c == b'0' && j == i + 1 {
            if at(j) == b'x' && at(j + 1).is_ascii_hexdigit() {
                let mut k = j + 1;
                while at(k).is_ascii_hexdigit() {
                    k += 1;
                }
                if !idcont(at(k)) {
                    return (number_in_range(&text[i..k], 16), k);
                }
                return (RefKind::Invalid, k); // e.g. 0x1g: outside the enumerated instances
            }
            if at(j) == b'b' && matches!(at(j + 1), b'0' | b'1') {
                let mut k = j + 1;
                while matches!(at(k), b'0' | b'1') {
                    k += 1;
                }
                if !idcont(at(k)) {
                    return (number_in_range(&text[i..k], 2), k);
                }
                return (RefKind::Invalid, k);
            }
        }
        if ualpha(at(j)) {
            let mut k = j;
            while idcont(at(k)) {
                k += 1;
            }
            return (RefKind::Id, k);
        }
        return (number_in_range(&text[i..j], 10), j);
    }
    if (c == b'+' || c == b'-') && at(i + 1).is_ascii_digit() {
        let mut j = i + 1;
        while at(j).is_ascii_digit() {
            j += 1;
        }
        if ualpha(at(j)) {
            return (RefKind::Invalid, j); // "-4a": not a spec-level token sequence we enumerate
        }
        return (number_in_range(&text[i..j], 10), j);
    }
    if ualpha(c) {
        let mut j = i;
        while idcont(at(j)) {
            j += 1;
        }
        return (fixed(KEYWORDS, &text[i..j]).unwrap_or(RefKind::Id), j);
    }
    if c == b'"' {
        let mut j = i + 1;
        while j < b.len() {
            match b[j] {
                b'"' => return (RefKind::Str, j + 1),
                b'\n' | b'\r' => return (RefKind::Invalid, j),
                b'\\' => {
                    if matches!(at(j + 1), b'\\' | b'\'' | b'"' | b't' | b'n') {
                        j += 2;
                    } else {
                        return (RefKind::Invalid, j + 1);
                    }
                }
                _ => j += 1,
            }
        }
        return (RefKind::Invalid, b.len());
    }
    if c == b'$' {
        if ualpha(at(i + 1)) {
            let mut j = i + 1;
            while idcont(at(j)) {
                j += 1;
            }
            return (RefKind::Var, j);
        }
        return (RefKind::Invalid, i + 1);
    }
    if c == b'[' && at(i + 1) == b'{' {
        return match text[i + 2..].find("}]") {
            Some(p) => (RefKind::Code, i + 2 + p + 2),
            None => (RefKind::Invalid, b.len()),
        };
    }
    if c == b'!' {
        let mut j = i + 1;
        while at(j).is_ascii_alphabetic() {
            j += 1;
        }
        return (fixed(BANGS, &text[i..j]).unwrap_or(RefKind::Invalid), j);
    }
    if c == b'#' {
        let mut j = i + 1;
        while at(j).is_ascii_alphabetic() {
            j += 1;
        }
        return match fixed(DIRECTIVES, &text[i..j]) {
            Some(k) => (k, j),
            None => (RefKind::Fixed("#"), i + 1),
        };
    }
    if text[i..].starts_with("...") {
        return (RefKind::Fixed("..."), i + 3);
    }
    if c.is_ascii() {
        if let Some(k) = fixed(PUNCT, &text[i..i + 1]) {
            return (k, i + 1);
        }
        return (RefKind::Invalid, i + 1);
    }
    let ch = text[i..].chars().next().unwrap();
    (RefKind::Invalid, i + ch.len_utf8())
}

fn number_in_range(s: &str, base: u32) -> RefKind {
    let ok = match base {
        16 => u64::from_str_radix(&s[2..], 16).is_ok(),
        2 => u64::from_str_radix(&s[2..], 2).is_ok(),
        _ => {
            if let Some(r) = s.strip_prefix('-') {
                // strtoll range
                r.parse::<u64>().map(|v| v <= (i64::MAX as u64) + 1).unwrap_or(false)
            } else {
                s.strip_prefix('+').unwrap_or(s).parse::<u64>().is_ok()
            }
        }
    };
    match (ok, base) {
        (false, _) => RefKind::Invalid,
        (true, 2) => RefKind::BinInt,
        (true, _) => RefKind::Int,
    }
}

pub fn lex(text: &str) -> Vec<(RefKind, usize, usize)> {
    let mut out = Vec::new();
    let mut i = 0;
    while i < text.len() {
        let (k, e) = next(text, i);
        assert!(e > i, "reference lexer must make progress");
        out.push((k, i, e));
        i = e;
    }
    out
}
