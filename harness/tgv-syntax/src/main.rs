use tgv_syntax::{c01, c02, c04, c14};

fn main() {
    tgv_core::main_for(&[&c01::C01, &c02::C02, &c04::C04, &c14::C14]);
}
