mod c01;
mod c02;
mod space;

fn main() {
    tgv_core::main_for(&[&c01::C01, &c02::C02]);
}
