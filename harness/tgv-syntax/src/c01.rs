//! C01 — lossless syntax tree.

use syntax::parse;
use tgv_core::shrink;
use tgv_core::{guard, json, Ctx, Engine, Failure, Tier, Value};

use crate::space::{self, Stratum};

pub struct C01;

/// The oracle: concatenated leaf tokens == input; every token range == running offset.
pub fn check_lossless(text: &str) -> Option<(&'static str, String)> {
    let parsed = match guard(|| parse(text)) {
        Ok(p) => p,
        // totality is C02's business; a panic still means the tree does not reproduce the input
        Err(p) => return Some(("panic", format!("parse panicked: {} at {}", p.message, p.location))),
    };
    let root = parsed.syntax_node();
    let whole = root.text().to_string();
    if whole != text {
        return Some((
            "tree-text",
            format!("tree text differs from input: tree={:?} input={:?}", trunc(&whole), trunc(text)),
        ));
    }
    let mut offset: usize = 0;
    for el in root.descendants_with_tokens() {
        let Some(tok) = el.into_token() else { continue };
        let r = tok.text_range();
        let (s, e): (usize, usize) = (r.start().into(), r.end().into());
        if s != offset {
            return Some(("token-range", format!("token {:?} starts at {s}, expected {offset}", tok.text())));
        }
        if e > text.len() || !text.is_char_boundary(s) || !text.is_char_boundary(e) || &text[s..e] != tok.text() {
            return Some((
                "token-text",
                format!("token {:?} at {s}..{e} does not equal the input slice", tok.text()),
            ));
        }
        offset = e;
    }
    if offset != text.len() {
        return Some(("token-cover", format!("tokens end at {offset}, input length {}", text.len())));
    }
    let rr = root.text_range();
    if usize::from(rr.start()) != 0 || usize::from(rr.end()) != text.len() {
        return Some(("root-range", format!("root range {rr:?} != 0..{}", text.len())));
    }
    None
}

fn trunc(s: &str) -> String {
    if s.len() > 200 {
        let mut e = 200;
        while !s.is_char_boundary(e) {
            e -= 1;
        }
        format!("{}…", &s[..e])
    } else {
        s.to_string()
    }
}

fn failure(text: &str, clause: &str, detail: String) -> Failure {
    Failure::new(clause, text, detail, json!({ "text": text }))
}

impl Engine for C01 {
    fn id(&self) -> &'static str {
        "C01"
    }

    fn rule(&self, tier: Tier) -> String {
        format!(
            "every word of length <= {} over the {}-symbol alphabet SIGMA and of length {} over the {}-symbol CORE, each joined by ' ', '' and LF; \
             every seed/corpus file, every character-boundary prefix of the seeds and the corpus files <= 8 KiB, every line-boundary prefix of corpus files <= {}; \
             every single-token deletion/duplication/transposition/replacement (16 tokens) of the seeds{}; CRLF and non-ASCII injected variants; nesting towers of depth 0..=320 of 18 recursive constructs, closed and cut after two thirds (on a 256 MiB stack: losslessness has no nesting bound). \
             Cases are distinct descriptors by construction of the enumeration; non-trivial = contains a trivia, lexical-error, preprocessor or non-ASCII symbol, or is a program-derived text.",
            tier.pick(3, 4),
            space::SIGMA.len(),
            tier.pick(4, 5),
            space::CORE.len(),
            tier.pick("32 KiB", "any size"),
            tier.pick("", " and small corpus files"),
        )
    }

    fn assumptions(&self) -> Vec<String> {
        vec![
            "inputs longer than the bounds, or over symbols outside SIGMA, are not covered (small-scope hypothesis)".into(),
            "rowan's SyntaxNode::text() and token ranges are trusted as the observation interface".into(),
        ]
    }

    fn explore(&self, tier: Tier, ctx: &mut Ctx) {
        let mut run = |ctx: &mut Ctx, text: &str, nontrivial: bool, stratum: Stratum| -> bool {
            ctx.trace(|| json!({ "text": text }));
            ctx.case(nontrivial);
            ctx.add(stratum.name(), 1);
            if nontrivial {
                ctx.sample(|| json!({ "stratum": stratum.name(), "text": trunc(text) }));
            }
            if let Some((clause, detail)) = check_lossless(text) {
                ctx.fail(failure(text, clause, detail));
            }
            !ctx.expired()
        };
        space::for_each_word(tier, ctx, |ctx, text, special| run(ctx, text, special, Stratum::Word));
        let files = space::files();
        space::for_each_program_text(tier, ctx, &files, |ctx, text, st| run(ctx, text, true, st));
        // nesting towers of every recursive construct up to depth 320 (closed and left open), on a stack large
        // enough that depth is no issue here: losslessness has no nesting bound (C02's 256 is about the stack)
        let r = tgv_core::guard_on_stack(256 * 1024 * 1024, || {
            for t in crate::c02::TOWERS {
                for depth in (0..=320usize).rev() {
                    if !ctx.mine() {
                        continue;
                    }
                    let full = crate::c02::tower(t, depth);
                    let cut = full.len() - full.len() / 3;
                    let mut open = cut;
                    while !full.is_char_boundary(open) {
                        open -= 1;
                    }
                    for text in [full.as_str(), &full[..open]] {
                        ctx.trace(|| json!({ "text": text }));
                        ctx.case(true);
                        ctx.add("towers", 1);
                        if let Some((clause, detail)) = check_lossless(text) {
                            ctx.fail(failure(text, clause, detail));
                        }
                    }
                    if ctx.expired() {
                        return;
                    }
                }
            }
        });
        if let Err(p) = r {
            panic!("harness panic: {} at {}", p.message, p.location);
        }
    }

    fn eval_case(&self, case: &Value) -> Vec<Failure> {
        let text = case["text"].as_str().unwrap_or_default();
        check_lossless(text)
            .map(|(c, d)| vec![failure(text, c, d)])
            .unwrap_or_default()
    }

    fn shrink(&self, case: &Value, _clause: &str) -> Vec<Value> {
        let text = case["text"].as_str().unwrap_or_default();
        shrink::text_deletions(text)
            .into_iter()
            .map(|t| json!({ "text": t }))
            .collect()
    }
}
