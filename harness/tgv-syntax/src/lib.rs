pub mod astwalk;
pub mod c01;
pub mod c02;
pub mod c04;
pub mod c14;
pub mod grammar;
pub mod reflex;
pub mod space;
