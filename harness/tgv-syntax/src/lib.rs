pub mod c01;
pub mod c02;
pub mod c14;
pub mod reflex;
pub mod space;
