//! C14 — lexical conformance with the TableGen language reference.

use syntax::lexer::Lexer;
use syntax::token_kind::TokenKind;
use syntax::token_stream::TokenStream;
use tgv_core::shrink;
use tgv_core::{guard, json, Ctx, Engine, Failure, Tier, Value};

use crate::reflex::{self, RefKind};

pub struct C14;

#[derive(Debug, Clone)]
pub struct Instance {
    pub text: String,
    pub kind: RefKind,
    pub reduced: bool,
}

fn words_over(alphabet: &[&str], max_len: usize) -> Vec<String> {
    let mut out = vec![String::new()];
    let mut frontier = vec![String::new()];
    for _ in 0..max_len {
        let mut next = Vec::new();
        for w in &frontier {
            for a in alphabet {
                next.push(format!("{w}{a}"));
            }
        }
        out.extend(next.iter().cloned());
        frontier = next;
    }
    out
}

pub fn instances() -> Vec<Instance> {
    let mut v: Vec<Instance> = Vec::new();
    let mut push = |text: String, kind: RefKind, reduced: bool| v.push(Instance { text, kind, reduced });
    // identifiers: all words <= 3 over {a, Z, _, 7} that contain a letter or underscore
    for w in words_over(&["a", "Z", "_", "7"], 3) {
        if w.bytes().any(|c| c.is_ascii_alphabetic() || c == b'_') {
            let reduced = matches!(w.as_str(), "a" | "_" | "7a" | "a7" | "77Z" | "Z_7");
            push(w, RefKind::Id, reduced);
        }
    }
    // digit-leading identifiers that look like the start of a binary / hexadecimal literal but are not one
    for w in ["0b", "0x", "0b2", "0b9", "0b7a", "0bz", "0b_", "0xg", "0x_", "0xz9", "7b", "7x1"] {
        push(w.to_string(), RefKind::Id, matches!(w, "0b2" | "0x"));
    }
    // decimal integers
    for sign in ["", "+", "-"] {
        for w in words_over(&["0", "1", "9"], 3) {
            if w.is_empty() {
                continue;
            }
            let t = format!("{sign}{w}");
            let reduced = matches!(t.as_str(), "0" | "19" | "+1" | "-9" | "-10");
            push(t, RefKind::Int, reduced);
        }
    }
    // digits in front of every keyword: one identifier (the keyword tables must see the whole text)
    for (kw, _) in reflex::KEYWORDS {
        push(format!("4{kw}"), RefKind::Id, *kw == "in");
        push(format!("07{kw}"), RefKind::Id, false);
    }
    // identifiers whose leading digits would not fit any integer type
    for w in ["99999999999999999999x", "18446744073709551616_big", "18446744073709551615x", "123456789012345678901234567890a"] {
        push(w.to_string(), RefKind::Id, false);
    }
    for b in ["9223372036854775807", "-9223372036854775808", "18446744073709551615", "+18446744073709551615"] {
        push(b.to_string(), RefKind::Int, false);
    }
    // hexadecimal, binary
    for w in words_over(&["0", "9", "a", "F"], 2) {
        if !w.is_empty() {
            let reduced = matches!(w.as_str(), "a" | "F9");
            push(format!("0x{w}"), RefKind::Int, reduced);
        }
    }
    push("0xFFFFFFFFFFFFFFFF".into(), RefKind::Int, false);
    for w in words_over(&["0", "1"], 3) {
        if !w.is_empty() {
            let reduced = matches!(w.as_str(), "1" | "01");
            push(format!("0b{w}"), RefKind::BinInt, reduced);
        }
    }
    // strings: bodies <= 3 items
    for w in words_over(&["a", " ", "\\\\", "\\\"", "\\'", "\\t", "\\n"], 3) {
        let reduced = matches!(w.as_str(), "" | "a" | "\\\\" | "\\\"" | "a\\\\" | "\\\"a" | "\\\\\\\"");
        push(format!("\"{w}\""), RefKind::Str, reduced);
    }
    // code fragments: bodies <= 3 items without the terminator inside
    for w in words_over(&["a", "}", "]", "[", "{", "\n"], 3) {
        if !w.contains("}]") {
            // a body may end in '}' ("[{a}}]"): the fragment still ends at the first "}]"
            let reduced = matches!(w.as_str(), "" | "a" | "]" | "{[" | "a\n");
            push(format!("[{{{w}}}]"), RefKind::Code, reduced);
        }
    }
    // variable names
    for w in words_over(&["a", "Z", "_", "7"], 3) {
        if w.bytes().next().map(|c| c.is_ascii_alphabetic() || c == b'_').unwrap_or(false) {
            let reduced = matches!(w.as_str(), "a" | "_7");
            push(format!("${w}"), RefKind::Var, reduced);
        }
    }
    // a variable name may be spelled like any reserved word, and continue one
    for (kw, _) in reflex::KEYWORDS {
        push(format!("${kw}"), RefKind::Var, matches!(*kw, "in" | "list"));
        push(format!("${kw}s"), RefKind::Var, false);
    }
    for (s, _) in reflex::KEYWORDS {
        push(s.to_string(), RefKind::Fixed(s), matches!(*s, "class" | "in" | "int" | "true"));
    }
    for (s, _) in reflex::BANGS {
        push(s.to_string(), RefKind::Fixed(s), matches!(*s, "!add" | "!cond" | "!logtwo" | "!con"));
    }
    for (s, _) in reflex::PUNCT {
        push(s.to_string(), RefKind::Fixed(s), matches!(*s, "+" | "-" | "." | "..." | "#" | "[" | "{" | "<"));
    }
    v
}

pub const SEPARATORS: &[&str] = &[" ", "\n", "\t", "//c\n", "/*c*/", "/*a/*b*/c*/", "//c\r\n", "//c\r", "\r\n"];

type Stream = Vec<(RefKind, usize, usize)>;

/// Token stream of the real lexer (kinds classified by the reference's tables),
/// or the first problem met while producing it.
fn real_stream(text: &str) -> Result<(Stream, Option<String>), String> {
    let r = guard(|| {
        let mut l = Lexer::new(text);
        let mut out: Stream = Vec::new();
        let mut error: Option<String> = None;
        loop {
            let s = l.cursor();
            let k = l.eat();
            let e = l.cursor();
            if k == TokenKind::Eof {
                break;
            }
            if e <= s {
                return Err(format!("lexer made no progress at {s} (kind {k:?})"));
            }
            if let Some(msg) = l.take_error() {
                if error.is_none() {
                    error = Some(format!("{msg} at {s}..{e}"));
                }
            }
            out.push((reflex::classify(k), s, e));
            if out.len() > text.len() + 1 {
                return Err("more tokens than bytes".to_string());
            }
        }
        Ok((out, error))
    });
    match r {
        Ok(x) => x,
        Err(p) => Err(format!("lexer panicked: {} at {}", p.message, p.location)),
    }
}

fn show(text: &str, s: &Stream) -> String {
    s.iter()
        .map(|(k, a, b)| format!("{:?}:{:?}", k, &text[*a..(*b).min(text.len())]))
        .collect::<Vec<_>>()
        .join(" ")
}

pub fn check(text: &str, expected: &Stream) -> Option<(String, String)> {
    match real_stream(text) {
        Err(e) => Some(("lexer-failure".to_string(), e)),
        Ok((real, err)) => {
            if &real != expected {
                // name the first differing token class so that witnesses group by defect
                let first = expected
                    .iter()
                    .zip(real.iter())
                    .find(|(a, b)| a != b)
                    .map(|(a, _)| a.0)
                    .or_else(|| expected.get(real.len()).map(|a| a.0));
                let class = match first {
                    Some(RefKind::Fixed(s)) if s.starts_with('!') => "operator".to_string(),
                    Some(RefKind::Fixed(s)) if s.chars().all(|c| c.is_ascii_alphabetic()) => "keyword".to_string(),
                    Some(RefKind::Fixed(_)) => "punctuation".to_string(),
                    Some(k) => format!("{k:?}"),
                    None => "extra-token".to_string(),
                };
                return Some((
                    format!("token-stream/{class}"),
                    format!("expected {} ; lexer gave {}", show(text, expected), show(text, &real)),
                ));
            }
            if let Some(e) = err {
                return Some(("lexical-error".to_string(), format!("error reported on a valid token sequence: {e}")));
            }
            None
        }
    }
}

fn failure(text: &str, clause: &str, detail: String) -> Failure {
    Failure::new(clause, text, detail, json!({ "text": text }))
}

fn valid(s: &Stream) -> bool {
    !s.iter().any(|(k, _, _)| *k == RefKind::Invalid)
}

impl Engine for C14 {
    fn id(&self) -> &'static str {
        "C14"
    }

    fn rule(&self, tier: Tier) -> String {
        let n = instances();
        format!(
            "{} token instances (identifiers <=3 over {{a,Z,_,7}} incl. digit-leading, and 12 identifiers that begin like 0b / 0x literals; signed decimals <=3 digits over {{0,1,9}} + 64-bit boundary values; hex <=2, binary <=3 digits; string bodies <=3 items over {{a,space,\\\\,\\\",\\',\\t,\\n}}; code bodies <=3 over {{a,}},],[,{{,LF}}; $names incl. every keyword spelling; 25 keywords; 53 operators; 18 punctuation marks); \
             every block comment `/*` + body of <= {} pieces over {{/*, */, /, *, a, space}} that the reference finds well nested and terminated, followed by an integer; \
             every single instance, every ordered pair{} joined by each of {} separators, with and without a trailing separator; expected stream known by construction and cross-checked against the reference lexer. \
             non-trivial = not two punctuation marks; descriptors distinct by construction.",
            n.len(),
            tier.pick(6, 7),
            tier.pick(
                " (and every triple over the reduced instance set with separators ' ' and '/*a/*b*/c*/')",
                " and every triple over the reduced instance set extended by every 7th instance"
            ),
            SEPARATORS.len()
        )
    }

    fn assumptions(&self) -> Vec<String> {
        vec![
            "reference lexer and tables in harness/tgv-syntax/src/reflex.rs follow spec/lexical.md (ProgRef 'Lexical Analysis'); operators !match/!instances of newer ProgRef revisions are not claimed".into(),
            "tokens are always separated by a separator, as the property states; adjacency without separator is C01/C02 territory".into(),
        ]
    }

    fn explore(&self, tier: Tier, ctx: &mut Ctx) {
        let inst = instances();
        let sep_streams: Vec<Stream> = SEPARATORS.iter().map(|s| reflex::lex(s)).collect();
        let mut text = String::new();
        let mut expected: Stream = Vec::new();

        let mut eval = |ctx: &mut Ctx, seq: &[usize], sep: usize, trailing: bool, text: &mut String, expected: &mut Stream| -> bool {
            text.clear();
            expected.clear();
            let mut nontrivial = false;
            for (k, &i) in seq.iter().enumerate() {
                if k > 0 || false {
                    let off = text.len();
                    text.push_str(SEPARATORS[sep]);
                    expected.extend(sep_streams[sep].iter().map(|(kk, a, b)| (*kk, a + off, b + off)));
                }
                let off = text.len();
                text.push_str(&inst[i].text);
                expected.push((inst[i].kind, off, text.len()));
                if !reflex::PUNCT.iter().any(|(p, _)| *p == inst[i].text) {
                    nontrivial = true;
                }
            }
            if trailing {
                let off = text.len();
                text.push_str(SEPARATORS[sep]);
                expected.extend(sep_streams[sep].iter().map(|(kk, a, b)| (*kk, a + off, b + off)));
            }
            // adjacent whitespace separators merge into one whitespace token: normalise
            let mut merged: Stream = Vec::with_capacity(expected.len());
            for t in expected.iter() {
                if let Some(last) = merged.last_mut() {
                    if last.0 == RefKind::Whitespace && t.0 == RefKind::Whitespace && last.2 == t.1 {
                        last.2 = t.2;
                        continue;
                    }
                }
                merged.push(*t);
            }
            // self-audit of the reference: construction and reference lexer must agree
            let reference = reflex::lex(text);
            if reference != merged {
                panic!(
                    "reference model inconsistent on {:?}: by construction {} ; reference lexer {}",
                    text,
                    show(text, &merged),
                    show(text, &reference)
                );
            }
            ctx.trace(|| json!({ "text": &*text }));
            ctx.case(nontrivial);
            if nontrivial {
                ctx.sample(|| json!({ "text": &*text, "expected": show(text, &merged) }));
            }
            if let Some((clause, detail)) = check(text, &merged) {
                ctx.fail(failure(text, &clause, detail));
            }
            !ctx.expired()
        };

        let n = inst.len() as u64;
        // singles and pairs
        for i in 0..n {
            if ctx.is_mine(i) {
                for sep in 0..SEPARATORS.len() {
                    for trailing in [false, true] {
                        if !eval(ctx, &[i as usize], sep, trailing, &mut text, &mut expected) {
                            return;
                        }
                    }
                }
                ctx.add("singles", 1);
            }
        }
        for idx in 0..n * n {
            if !ctx.is_mine(idx) {
                continue;
            }
            let (i, j) = ((idx / n) as usize, (idx % n) as usize);
            for sep in 0..SEPARATORS.len() {
                for trailing in [false, true] {
                    if !eval(ctx, &[i, j], sep, trailing, &mut text, &mut expected) {
                        return;
                    }
                }
            }
            ctx.add("pairs", 1);
        }
        // block comments: every body of <= 6 (t: 7) pieces over {"/*", "*/", "/", "*", "a", " "} behind an
        // opener, followed by a blank and an integer; judged where the reference finds only valid tokens
        // (properly nested, terminated) - the delimiters may touch ("/*/", "*/*") but never overlap
        {
            let pieces = ["/*", "*/", "/", "*", "a", " "];
            let bodies = words_over(&pieces, tier.pick(6, 7));
            for (k, w) in bodies.iter().enumerate() {
                if !ctx.is_mine(k as u64) {
                    continue;
                }
                let text = format!("/*{w} 42");
                let reference = reflex::lex(&text);
                let nontrivial = valid(&reference) && reference.len() >= 3;
                ctx.trace(|| json!({ "text": &text }));
                ctx.case(nontrivial);
                ctx.add("comment_bodies", 1);
                if !valid(&reference) {
                    continue;
                }
                if let Some((clause, detail)) = check(&text, &reference) {
                    ctx.fail(failure(&text, &clause, detail));
                }
                if ctx.expired() {
                    return;
                }
            }
        }
        // triples over the reduced set
        let red: Vec<usize> = inst
            .iter()
            .enumerate()
            .filter(|(i, x)| x.reduced || (tier == Tier::Thorough && i % 7 == 0))
            .map(|(i, _)| i)
            .collect();
        let r = red.len() as u64;
        let seps: Vec<usize> = match tier {
            Tier::Quick => vec![0, 5],
            Tier::Thorough => (0..SEPARATORS.len()).collect(),
        };
        for idx in 0..r * r * r {
            if !ctx.is_mine(idx) {
                continue;
            }
            let (i, j, k) = (red[(idx / (r * r)) as usize], red[((idx / r) % r) as usize], red[(idx % r) as usize]);
            for &sep in &seps {
                for trailing in [false, true] {
                    if !eval(ctx, &[i, j, k], sep, trailing, &mut text, &mut expected) {
                        return;
                    }
                }
            }
            ctx.add("triples", 1);
        }
    }

    fn eval_case(&self, case: &Value) -> Vec<Failure> {
        let text = case["text"].as_str().unwrap_or_default();
        let reference = reflex::lex(text);
        if !valid(&reference) {
            // not a sequence of valid tokens: the property says nothing
            return vec![];
        }
        check(text, &reference)
            .map(|(c, d)| vec![failure(text, &c, d)])
            .unwrap_or_default()
    }

    fn shrink(&self, case: &Value, _clause: &str) -> Vec<Value> {
        let text = case["text"].as_str().unwrap_or_default();
        shrink::text_deletions(text)
            .into_iter()
            .map(|t| json!({ "text": t }))
            .collect()
    }
}
