//! C04 — grammar conformance: documented syntax is accepted (and reachable through
//! the typed accessors), other input is flagged.

use std::collections::BTreeMap;

use tgv_core::{guard, json, Ctx, Engine, Failure, Tier, Value};

use crate::astwalk::{accessor_tree, show, Node};
use crate::grammar::{Enumerator, Grammar, Tree, GEN_BNF, REC_BNF};
use crate::space;

pub struct C04;

/// One concrete lexeme per terminal of the grammars.
pub fn lexeme(t: &str) -> &str {
    match t {
        "ID" => "x",
        "INT" => "1",
        "BININT" => "0b1",
        "STR" => "\"s\"",
        "CODE" => "[{c}]",
        "VAR" => "$v",
        "BANG" => "!add",
        "COND" => "!cond",
        other => other,
    }
}

pub fn render(word: &[&str]) -> String {
    word.iter().map(|t| lexeme(t)).collect::<Vec<_>>().join(" ")
}

/// Rendering with a particular operator spelling for the BANG token class.
pub fn render_with(word: &[&str], bang: &str) -> String {
    word.iter().map(|t| if *t == "BANG" { bang } else { lexeme(t) }).collect::<Vec<_>>().join(" ")
}

/// Tokens used for insertions and replacements.
pub const MUT_TOKENS: &[&str] = &["ID", "INT", "STR", ";", ",", "{", "}", "<", ">", "(", ")", "[", "]", ":", "=", "class", "in", "then", "#", "."];

/// Non-trivia token kinds for the exhaustive short-word stratum.
pub const WORD_TOKENS: &[&str] = &[
    "ID", "INT", "BININT", "STR", "CODE", "VAR", "BANG", "COND", "<", ">", "{", "}", "[", "]", "(", ")", ":", ";", ",", "=", ".", "?", "#", "...", "-", "include", "class", "def", "let", "in",
    "multiclass", "defm", "defset", "defvar", "dump", "foreach", "if", "then", "else", "assert", "field", "bit", "int", "string", "dag", "bits", "list", "code", "true", "false",
];

struct Grammars {
    gen: Grammar,
    rec: Grammar,
}

impl Grammars {
    fn load() -> Grammars {
        Grammars { gen: Grammar::parse(GEN_BNF, "SourceFile"), rec: Grammar::parse(REC_BNF, "SourceFile") }
    }
    fn ids(g: &Grammar, word: &[&str]) -> Vec<usize> {
        word.iter().map(|t| g.terminal(t).unwrap_or(usize::MAX)).collect()
    }
    fn in_gen(&self, word: &[&str]) -> bool {
        self.gen.recognises(&Self::ids(&self.gen, word))
    }
    fn in_rec(&self, word: &[&str]) -> bool {
        self.rec.recognises(&Self::ids(&self.rec, word))
    }
}

/// The derivation as the tree of constituents that have a node kind (helpers flattened).
fn expected_tree(g: &Grammar, t: &Tree, bang: &str) -> Vec<Node> {
    match t {
        Tree::Tok(_) => vec![],
        Tree::Node(n, children) => {
            let inner: Vec<Node> = children.iter().flat_map(|c| expected_tree(g, c, bang)).collect();
            match g.kind_of(*n) {
                None => inner,
                Some(kind) => {
                    let mut y = Vec::new();
                    t.yield_into(&mut y);
                    let tokens = y.iter().map(|&t| if g.terminals[t] == "BANG" { bang } else { lexeme(&g.terminals[t]) }).collect::<Vec<_>>().join(" ");
                    vec![Node { kind: kind.to_string(), tokens, children: inner }]
                }
            }
        }
    }
}

fn first_difference(exp: &Node, act: &Node, path: &str) -> Option<String> {
    let here = format!("{path}/{}", exp.kind);
    if exp.kind != act.kind {
        return Some(format!("at {here}: the accessors give a {} `{}` where the grammar has a {} `{}`", act.kind, act.tokens, exp.kind, exp.tokens));
    }
    if exp.tokens != act.tokens {
        return Some(format!("at {here}: node covers `{}`, the constituent is `{}`", act.tokens, exp.tokens));
    }
    if exp.children.len() != act.children.len() {
        let e: Vec<String> = exp.children.iter().map(|c| format!("{} `{}`", c.kind, c.tokens)).collect();
        let a: Vec<String> = act.children.iter().map(|c| format!("{} `{}`", c.kind, c.tokens)).collect();
        return Some(format!("at {here} `{}`: constituents {e:?}, reachable through accessors {a:?}", exp.tokens));
    }
    for (e, a) in exp.children.iter().zip(act.children.iter()) {
        if let Some(d) = first_difference(e, a, &here) {
            return Some(d);
        }
    }
    None
}

#[derive(Debug, Clone, Copy, PartialEq, Eq)]
enum Membership {
    /// generated from G_gen (a derivation tree is at hand)
    Generated,
    Unknown,
}

/// Evaluates one token word; returns (clause, detail) problems.
fn eval_word(gs: &Grammars, word: &[&str], membership: Membership, tree: Option<&Tree>) -> Vec<(String, String)> {
    eval_word_with(gs, word, membership, tree, "!add")
}

fn eval_word_with(gs: &Grammars, word: &[&str], membership: Membership, tree: Option<&Tree>, bang: &str) -> Vec<(String, String)> {
    let text = render_with(word, bang);
    let parsed = match guard(|| syntax::parse(&text)) {
        Ok(p) => p,
        Err(p) => return vec![("panic".into(), format!("{} at {}", p.message, p.location))],
    };
    let errors: Vec<String> = parsed.errors().iter().map(|e| format!("{:?} {}", e.range, e.message)).collect();
    let mut out = Vec::new();
    let in_gen = membership == Membership::Generated || gs.in_gen(word);
    let in_rec = gs.in_rec(word);
    if in_gen && !in_rec {
        out.push(("machinery".to_string(), format!("G_gen sentence `{text}` is not in G_rec: the two grammar files are inconsistent")));
        return out;
    }
    if in_gen && !errors.is_empty() {
        out.push(("sentence-rejected".to_string(), format!("`{text}` is derivable from the documented grammar but reports {errors:?}")));
    }
    if !in_rec && errors.is_empty() {
        out.push(("non-sentence-accepted".to_string(), format!("`{text}` is not derivable from the documented grammar (even allowing trailing separators) but no syntax error is reported")));
    }
    if let (Some(t), true) = (tree, errors.is_empty()) {
        let exp = expected_tree(&gs.gen, t, bang);
        let act = accessor_tree(&parsed.syntax_node());
        if let Some(e) = exp.first() {
            if let Some(d) = first_difference(e, &act, "") {
                let mut a = String::new();
                show(&act, 0, &mut a);
                out.push(("accessor-tree".to_string(), format!("`{text}`: {d}")));
            }
        }
    }
    out
}

fn witness(word: &[&str]) -> String {
    render(word)
}

fn failures(gs: &Grammars, word: &[&str], membership: Membership, tree: Option<&Tree>) -> Vec<Failure> {
    eval_word(gs, word, membership, tree)
        .into_iter()
        .map(|(c, d)| Failure::new(&c, witness(word), d, json!({ "word": word })))
        .collect()
}

struct Stratum {
    name: &'static str,
    subst: Vec<(&'static str, &'static str)>,
    max_len: usize,
    /// render every sentence once per operator spelling (the BANG class has 52 members)
    every_operator: bool,
}

fn strata(tier: Tier) -> Vec<Stratum> {
    vec![
        Stratum {
            name: "skeleton",
            subst: vec![("Value", "Value_1"), ("_Type", "IntType"), ("Value_name", "Value_nameid"), ("Value_fi", "Value_nameid")],
            max_len: tier.pick(11, 13),
            every_operator: false,
        },
        Stratum { name: "values", subst: vec![("_Statement", "_Statement_defvar"), ("_Type", "IntType")], max_len: tier.pick(11, 12), every_operator: false },
        Stratum { name: "classes", subst: vec![("_Statement", "_Statement_class"), ("Value", "Value_1")], max_len: tier.pick(12, 14), every_operator: false },
        // every value position of every statement skeleton holds an operator call, once per operator
        Stratum {
            name: "operator-positions",
            subst: vec![("Value", "Value_b"), ("_Type", "IntType"), ("Value_name", "Value_nameb"), ("Value_fi", "Value_b")],
            max_len: tier.pick(12, 14),
            every_operator: true,
        },
        // argument lists inside argument lists, positional and named at both depths
        Stratum { name: "nested-arguments", subst: vec![("_Statement", "_Statement_defvar"), ("Value", "Value_a")], max_len: tier.pick(13, 15), every_operator: false },
        Stratum {
            name: "cond-positions",
            subst: vec![("Value", "Value_c"), ("_Type", "IntType"), ("Value_name", "Value_nameid"), ("Value_fi", "Value_c")],
            max_len: tier.pick(13, 15),
            every_operator: false,
        },
    ]
}

fn mutations(word: &[&str], mut f: impl FnMut(&[&str]) -> bool) {
    let n = word.len();
    let mut buf: Vec<&str> = Vec::with_capacity(n + 1);
    for i in 0..n {
        // deletion
        buf.clear();
        buf.extend_from_slice(&word[..i]);
        buf.extend_from_slice(&word[i + 1..]);
        if !f(&buf) {
            return;
        }
        // duplication
        buf.clear();
        buf.extend_from_slice(&word[..=i]);
        buf.extend_from_slice(&word[i..]);
        if !f(&buf) {
            return;
        }
        // transposition
        if i + 1 < n && word[i] != word[i + 1] {
            buf.clear();
            buf.extend_from_slice(word);
            buf.swap(i, i + 1);
            if !f(&buf) {
                return;
            }
        }
        for t in MUT_TOKENS {
            if *t != word[i] {
                buf.clear();
                buf.extend_from_slice(word);
                buf[i] = t;
                if !f(&buf) {
                    return;
                }
            }
        }
    }
    for i in 0..=n {
        for t in MUT_TOKENS {
            buf.clear();
            buf.extend_from_slice(&word[..i]);
            buf.push(t);
            buf.extend_from_slice(&word[i..]);
            if !f(&buf) {
                return;
            }
        }
    }
}

/// Every replacement of one token by one of `tokens` (other than itself and than the tokens `mutations` tries).
fn replacements(word: &[&str], tokens: &[&'static str], skip: &[&str], mut f: impl FnMut(&[&str]) -> bool) {
    let mut buf: Vec<&str> = Vec::with_capacity(word.len());
    for i in 0..word.len() {
        for t in tokens {
            if *t == word[i] || skip.contains(t) {
                continue;
            }
            buf.clear();
            buf.extend_from_slice(word);
            buf[i] = t;
            if !f(&buf) {
                return;
            }
        }
    }
}

/// Every insertion of one of `tokens` at every position.
fn insertions(word: &[&str], tokens: &[&'static str], mut f: impl FnMut(&[&str]) -> bool) {
    let n = word.len();
    let mut buf: Vec<&str> = Vec::with_capacity(n + 1);
    for i in 0..=n {
        for t in tokens {
            buf.clear();
            buf.extend_from_slice(&word[..i]);
            buf.push(t);
            buf.extend_from_slice(&word[i..]);
            if !f(&buf) {
                return;
            }
        }
    }
}

impl Engine for C04 {
    fn id(&self) -> &'static str {
        "C04"
    }

    fn rule(&self, tier: Tier) -> String {
        format!(
            "(a) every sentence of G_gen (spec/grammar_gen.bnf) in three strata, each exhaustive below its bound: statement skeletons with `1`/`int`/identifier plugs up to {} tokens, every value derivation inside `defvar x = V ;` up to {} tokens, every class declaration (all type derivations, template arguments, parent lists, body items) up to {} tokens, every statement skeleton whose value positions (incl. def names, argument lists, foreach lists) hold an operator call, rendered once for each of the 52 operator spellings, the same with !cond, and every `defvar x = V ;` whose V is an integer or a class value with positional and named arguments that are again such values (argument lists nested two deep) - each must parse without error and the tree seen through the typed accessors must equal the derivation; \
             (b) every token-kind word of length <= {} over {} non-trivia kinds, classified by Earley recognisers of G_gen and G_rec (spec/grammar_rec.bnf); (c) for every generated sentence of at most {} tokens every single deletion, duplication, adjacent transposition, and insertion or replacement by each of {} tokens, and for every generated sentence of at most {} tokens every insertion of each of the {} non-trivia token kinds at every position (and, up to one token shorter, every replacement of a token by each of them){}; (d) every seed and corpus file parses without error. \
             Words in G_gen must have no error; words outside G_rec must have at least one; G_rec minus G_gen is a stated don't-care zone. non-trivial = sentences, and words classified outside G_rec; distinct by construction within a stratum.",
            strata(tier)[0].max_len,
            strata(tier)[1].max_len,
            strata(tier)[2].max_len,
            tier.pick(3, 4),
            WORD_TOKENS.len(),
            tier.pick(6, 7),
            MUT_TOKENS.len(),
            tier.pick(8, 9),
            WORD_TOKENS.len(),
            tier.pick("", "; double mutations of sentences of at most 4 tokens")
        )
    }

    fn assumptions(&self) -> Vec<String> {
        vec![
            "the two BNF files are the reference: every rule carries the source it was taken from (syntax.md, parser rule comments, Programmer's Reference); DESIGN Appendix A lists where the sources differ".into(),
            "tokens are joined by single spaces, one lexeme per token kind (x, 1, 0b1, \"s\", [{c}], $v, !add, !cond)".into(),
        ]
    }

    fn workers(&self, default: usize) -> usize {
        // every worker enumerates the derivation trees itself; beyond a few workers the duplicated
        // allocation work costs more (page-fault contention) than the sharded evaluation saves
        default.min(5)
    }

    fn as_limit_mb(&self, tier: Tier) -> u64 {
        // the derivation-tree enumerator of the long strata holds a few GiB per worker (at most 5 workers)
        tier.pick(4096, 10240)
    }

    fn explore(&self, tier: Tier, ctx: &mut Ctx) {
        let gs = Grammars::load();
        let mut sentence_count: BTreeMap<&'static str, u64> = BTreeMap::new();
        // (a) + (c): sentences and their mutations
        for st in strata(tier) {
            let g = gs.gen.substituted(&st.subst, "SourceFile");
            let mut en = Enumerator::new(&g, 400_000);
            let mut buf = Vec::new();
            // the trees refer to nonterminal ids of `g`; kinds are name based, so `g` serves for the expectation
            let gs_local = Grammars { gen: g.clone(), rec: gs.rec.clone() };
            for len in 0..=st.max_len {
                let trees = en.trees(g.start, len);
                for t in trees.iter() {
                    if !ctx.mine() {
                        continue;
                    }
                    buf.clear();
                    t.yield_into(&mut buf);
                    let word: Vec<&str> = buf.iter().map(|&i| g.terminals[i].as_str()).collect();
                    ctx.trace(|| json!({ "word": word }));
                    ctx.case(true);
                    *sentence_count.entry(st.name).or_insert(0) += 1;
                    ctx.sample(|| json!({ "stratum": st.name, "sentence": render(&word) }));
                    if st.every_operator {
                        for (op, _) in crate::reflex::BANGS.iter().filter(|(op, _)| *op != "!cond") {
                            ctx.case(true);
                            ctx.add("operator_renderings", 1);
                            for (c, d) in eval_word_with(&gs_local, &word, Membership::Generated, Some(t), op) {
                                ctx.fail(Failure::new(&c, render_with(&word, op), d, json!({ "word": word, "bang": op })));
                            }
                        }
                        if ctx.expired() {
                            return;
                        }
                        continue;
                    }
                    for f in failures(&gs_local, &word, Membership::Generated, Some(t)) {
                        ctx.fail(f);
                    }
                    if word.len() <= tier.pick(6, 7) {
                        mutations(&word, |m| {
                            ctx.case(false);
                            ctx.add("mutations", 1);
                            for f in failures(&gs, m, Membership::Unknown, None) {
                                ctx.fail(f);
                            }
                            true
                        });
                    }
                    // one stray token of ANY kind (every keyword, literal kind and punctuation) at every
                    // position, also for somewhat longer sentences
                    if word.len() <= tier.pick(8, 9) {
                        let short = word.len() <= tier.pick(6, 7);
                        insertions(&word, WORD_TOKENS, |m| {
                            // the insertions by MUT_TOKENS of short sentences were done above
                            if short && MUT_TOKENS.contains(&m[m.iter().zip(word.iter()).take_while(|(a, b)| a == b).count().min(m.len() - 1)]) {
                                return true;
                            }
                            ctx.case(false);
                            ctx.add("wide_insertions", 1);
                            for f in failures(&gs, m, Membership::Unknown, None) {
                                ctx.fail(f);
                            }
                            true
                        });
                    }
                    // one token replaced by a token of ANY other kind
                    if word.len() <= tier.pick(7, 8) {
                        let skip: &[&str] = if word.len() <= tier.pick(6, 7) { MUT_TOKENS } else { &[] };
                        replacements(&word, WORD_TOKENS, skip, |m| {
                            ctx.case(false);
                            ctx.add("wide_replacements", 1);
                            for f in failures(&gs, m, Membership::Unknown, None) {
                                ctx.fail(f);
                            }
                            true
                        });
                    }
                    if tier == Tier::Thorough && word.len() <= 4 {
                        mutations(&word, |m1| {
                            let m1: Vec<&str> = m1.to_vec();
                            mutations(&m1, |m2| {
                                ctx.case(false);
                                ctx.add("double_mutations", 1);
                                for f in failures(&gs, m2, Membership::Unknown, None) {
                                    ctx.fail(f);
                                }
                                true
                            });
                            true
                        });
                    }
                    if ctx.expired() {
                        return;
                    }
                }
            }
            if en.capped {
                ctx.mark_capped();
                ctx.add("strata_capped", 1);
            }
        }
        for (k, v) in sentence_count {
            ctx.add(&format!("sentences_{k}"), v);
        }
        // (b) exhaustive short words
        let k = WORD_TOKENS.len();
        let (shard, n) = (ctx.shard, ctx.nshards);
        let mut word: Vec<&str> = Vec::new();
        tgv_core::words::for_each_word(k, tier.pick(3, 4), shard, n, |_, w| {
            word.clear();
            word.extend(w.iter().map(|&i| WORD_TOKENS[i]));
            let fs = failures(&gs, &word, Membership::Unknown, None);
            ctx.case(false);
            ctx.add("short_words", 1);
            for f in fs {
                ctx.fail(f);
            }
            !ctx.expired()
        });
        // (d) corpus
        let files = space::files();
        for (name, text) in files.seeds.iter().chain(files.corpus.iter()) {
            if !ctx.mine() {
                continue;
            }
            ctx.case(true);
            ctx.add("corpus_files", 1);
            match guard(|| syntax::parse(text)) {
                Ok(p) => {
                    if let Some(e) = p.errors().first() {
                        let at = usize::from(e.range.start());
                        let ls = text[..at.min(text.len())].rfind('\n').map(|i| i + 1).unwrap_or(0);
                        let le = text[at.min(text.len())..].find('\n').map(|i| at + i).unwrap_or(text.len());
                        ctx.fail(Failure::new(
                            "corpus-rejected",
                            format!("{name}: {}", text[ls..le].trim()),
                            format!("real-world file {name} reports {} syntax errors, first: {:?} {}", p.errors().len(), e.range, e.message),
                            json!({ "file": name }),
                        ));
                    }
                }
                Err(p) => ctx.fail(Failure::new("panic", name.clone(), format!("{} at {}", p.message, p.location), json!({ "file": name }))),
            }
        }
    }

    fn eval_case(&self, case: &Value) -> Vec<Failure> {
        let gs = Grammars::load();
        if let Some(name) = case["file"].as_str() {
            let files = space::files();
            let Some((_, text)) = files.seeds.iter().chain(files.corpus.iter()).find(|(n, _)| n == name) else { return vec![] };
            let p = syntax::parse(text);
            return match p.errors().first() {
                Some(e) => {
                    let at = usize::from(e.range.start()).min(text.len());
                    let ls = text[..at].rfind('\n').map(|i| i + 1).unwrap_or(0);
                    let le = text[at..].find('\n').map(|i| at + i).unwrap_or(text.len());
                    vec![Failure::new("corpus-rejected", format!("{name}: {}", text[ls..le].trim()), format!("{:?} {}", e.range, e.message), case.clone())]
                }
                None => vec![],
            };
        }
        let owned: Vec<String> = case["word"].as_array().map(|a| a.iter().filter_map(|x| x.as_str()).map(|s| s.to_string()).collect()).unwrap_or_default();
        let word: Vec<&str> = owned.iter().map(|s| s.as_str()).collect();
        let bang = case["bang"].as_str().unwrap_or("!add").to_string();
        // re-derive a tree when the word is a G_gen sentence of a stratum (accessor clause)
        let mut out: Vec<Failure> = eval_word_with(&gs, &word, Membership::Unknown, None, &bang)
            .into_iter()
            .map(|(c, d)| Failure::new(&c, render_with(&word, &bang), d, json!({ "word": word, "bang": bang })))
            .collect();
        if gs.in_gen(&word) {
            for st in strata(Tier::Thorough) {
                let g = gs.gen.substituted(&st.subst, "SourceFile");
                let mut en = Enumerator::new(&g, 400_000);
                let trees = en.trees(g.start, word.len());
                let mut buf = Vec::new();
                for t in trees.iter() {
                    buf.clear();
                    t.yield_into(&mut buf);
                    if buf.iter().map(|&i| g.terminals[i].as_str()).eq(word.iter().copied()) {
                        let gs_local = Grammars { gen: g.clone(), rec: gs.rec.clone() };
                        for (c, d) in eval_word_with(&gs_local, &word, Membership::Generated, Some(t), &bang) {
                            if !out.iter().any(|o| o.clause == c) {
                                out.push(Failure::new(&c, render_with(&word, &bang), d, json!({ "word": word, "bang": bang })));
                            }
                        }
                        return out;
                    }
                }
            }
        }
        out
    }

    fn shrink(&self, case: &Value, _clause: &str) -> Vec<Value> {
        let owned: Vec<String> = case["word"].as_array().map(|a| a.iter().filter_map(|x| x.as_str()).map(|s| s.to_string()).collect()).unwrap_or_default();
        tgv_core::shrink::deletions(&owned).into_iter().map(|w| json!({ "word": w, "bang": case["bang"] })).collect()
    }
}
