//! The syntax tree as seen through the typed accessors of crates/syntax/src/ast.rs
//! only: every child is obtained by calling an accessor, never by walking rowan.

use syntax::ast::{self, AstNode};
use syntax::syntax_kind::SyntaxKind as K;
use syntax::SyntaxNode;

#[derive(Debug, Clone, PartialEq, Eq)]
pub struct Node {
    pub kind: String,
    /// non-trivia token texts of the node, space separated
    pub tokens: String,
    pub children: Vec<Node>,
}

macro_rules! via {
    ($n:expr, $ty:ident; $($single:ident),*; $($multi:ident),*) => {{
        let mut v: Vec<SyntaxNode> = Vec::new();
        if let Some(x) = ast::$ty::cast($n.clone()) {
            $( if let Some(c) = x.$single() { v.push(c.syntax().clone()); } )*
            $( for c in x.$multi() { v.push(c.syntax().clone()); } )*
        }
        v
    }};
}

/// Children reachable through the typed accessors of the node's type.
pub fn accessor_children(n: &SyntaxNode) -> Vec<SyntaxNode> {
    let mut v = match n.kind() {
        K::SourceFile => via!(n, SourceFile; statement_list;),
        K::StatementList => via!(n, StatementList; ; statements),
        K::Include => via!(n, Include; path;),
        K::Class => via!(n, Class; name, template_arg_list, record_body;),
        K::Def => via!(n, Def; name, record_body;),
        K::Let => via!(n, Let; let_list, statement_list;),
        K::LetList => via!(n, LetList; ; items),
        K::LetItem => via!(n, LetItem; name, range_list, value;),
        K::MultiClass => via!(n, MultiClass; name, template_arg_list, parent_class_list, statement_list;),
        K::Defm => via!(n, Defm; name, parent_class_list;),
        K::Defset => via!(n, Defset; r#type, name, statement_list;),
        K::Defvar => via!(n, Defvar; name, value;),
        K::Dump => via!(n, Dump; value;),
        K::Foreach => via!(n, Foreach; iterator, body;),
        K::ForeachIterator => via!(n, ForeachIterator; name, init;),
        K::If => via!(n, If; condition, then_body, else_body;),
        K::Assert => via!(n, Assert; condition, message;),
        K::TemplateArgList => via!(n, TemplateArgList; ; args),
        K::TemplateArgDecl => via!(n, TemplateArgDecl; r#type, name, value;),
        K::RecordBody => via!(n, RecordBody; parent_class_list, body;),
        K::ParentClassList => via!(n, ParentClassList; ; classes),
        K::ClassRef => via!(n, ClassRef; name, arg_value_list;),
        K::ArgValueList => via!(n, ArgValueList; ; arg_values),
        K::PositionalArgValue => via!(n, PositionalArgValue; value;),
        K::NamedArgValue => via!(n, NamedArgValue; name, value;),
        K::Body => via!(n, Body; ; items),
        K::FieldDef => via!(n, FieldDef; r#type, name, value;),
        K::FieldLet => via!(n, FieldLet; name, range_list, value;),
        K::BitsType => via!(n, BitsType; length;),
        K::ListType => via!(n, ListType; inner_type;),
        K::ClassId => via!(n, ClassId; name;),
        K::Value => via!(n, Value; ; inner_values),
        K::InnerValue => via!(n, InnerValue; simple_value; suffixes),
        K::RangeSuffix => via!(n, RangeSuffix; range_list;),
        K::RangeList => via!(n, RangeList; ; pieces),
        K::RangePiece => via!(n, RangePiece; start, end;),
        K::SliceSuffix => via!(n, SliceSuffix; element_list;),
        K::SliceElements => via!(n, SliceElements; ; elements),
        K::SliceElement => via!(n, SliceElement; start, end;),
        K::FieldSuffix => via!(n, FieldSuffix; name;),
        K::Bits => via!(n, Bits; value_list;),
        K::List => via!(n, List; value_list;),
        K::ValueList => via!(n, ValueList; ; values),
        K::Dag => via!(n, Dag; operator, arg_list;),
        K::DagArgList => via!(n, DagArgList; ; args),
        K::DagArg => via!(n, DagArg; value, var_name;),
        K::ClassValue => via!(n, ClassValue; name, arg_value_list;),
        K::BangOperator => via!(n, BangOperator; r#type; values),
        K::CondOperator => via!(n, CondOperator; ; clauses),
        K::CondClause => via!(n, CondClause; condition, value;),
        _ => Vec::new(),
    };
    // in source order; an accessor returning the same node twice must not hide a missing one
    v.sort_by_key(|c| (c.text_range().start(), c.text_range().end()));
    v
}

pub fn tokens_of(n: &SyntaxNode) -> String {
    n.descendants_with_tokens()
        .filter_map(|e| e.into_token())
        .filter(|t| !t.kind().is_trivia() && !t.text().is_empty())
        .map(|t| t.text().to_string())
        .collect::<Vec<_>>()
        .join(" ")
}

pub fn accessor_tree(n: &SyntaxNode) -> Node {
    Node { kind: format!("{:?}", n.kind()), tokens: tokens_of(n), children: accessor_children(n).iter().map(accessor_tree).collect() }
}

pub fn show(n: &Node, depth: usize, out: &mut String) {
    out.push_str(&format!("{}{} `{}`\n", "  ".repeat(depth), n.kind, n.tokens));
    for c in &n.children {
        show(c, depth + 1, out);
    }
}
