//! C02 — parser totality: termination, no panic, linear work, well-formed errors.

use syntax::parse;
use syntax::verif;
use tgv_core::shrink;
use tgv_core::{guard, json, Ctx, Engine, Failure, Tier, Value};

use crate::space::{self, Stratum};

pub struct C02;

pub const FUEL_PER_TOKEN: u64 = 256;
pub const NODES_PER_TOKEN: u64 = 64;

fn leaf_tokens(root: &syntax::SyntaxNode) -> u64 {
    root.descendants_with_tokens().filter(|e| e.as_token().is_some()).count() as u64
}

/// Upper bound on the number of tokens any tokenisation of `text` can have: one per byte.
pub fn check_total(text: &str) -> (Option<(&'static str, String)>, u64, u64) {
    // fuel is armed from a bound known before parsing: tokens <= bytes
    let bytes = text.len() as u64;
    verif::arm(Some(FUEL_PER_TOKEN * (bytes + 1) + 256));
    let r = guard(|| parse(text));
    let counters = verif::counters();
    verif::arm(None);
    let parsed = match r {
        Ok(p) => p,
        Err(p) if p.is_fuel() => {
            return (
                Some((
                    "non-termination",
                    format!("fuel of {}*(bytes+1)+256 parser steps exhausted: {:?}", FUEL_PER_TOKEN, counters),
                )),
                0,
                0,
            )
        }
        Err(p) => return (Some(("panic", format!("{} at {}", p.message, p.location))), 0, 0),
    };
    let root = parsed.syntax_node();
    let t = leaf_tokens(&root);
    if counters.tokens_saved != t {
        return (
            Some(("tokens-saved", format!("save() ran {} times for {t} leaf tokens", counters.tokens_saved))),
            t,
            counters.nodes_started,
        );
    }
    if counters.lex_calls > t + 1 {
        return (
            Some(("lex-calls", format!("lex() ran {} times for {t} leaf tokens", counters.lex_calls))),
            t,
            counters.nodes_started,
        );
    }
    if counters.nodes_started > NODES_PER_TOKEN * (t + 1) {
        return (
            Some((
                "work-bound",
                format!("{} nodes started for {t} tokens (bound {}*(T+1))", counters.nodes_started, NODES_PER_TOKEN),
            )),
            t,
            counters.nodes_started,
        );
    }
    if counters.errors_reported > NODES_PER_TOKEN * (t + 1) {
        return (
            Some((
                "work-bound",
                format!("{} syntax errors reported for {t} tokens (bound {}*(T+1))", counters.errors_reported, NODES_PER_TOKEN),
            )),
            t,
            counters.nodes_started,
        );
    }
    for e in parsed.errors() {
        let (s, en): (usize, usize) = (e.range.start().into(), e.range.end().into());
        if e.message.trim().is_empty() {
            return (Some(("error-message", format!("empty message at {s}..{en}"))), t, counters.nodes_started);
        }
        if s > en || en > text.len() || !text.is_char_boundary(s) || !text.is_char_boundary(en) {
            return (
                Some(("error-range", format!("error {:?} has range {s}..{en} in a text of {} bytes", e.message, text.len()))),
                t,
                counters.nodes_started,
            );
        }
    }
    (None, t, counters.nodes_started)
}

fn failure(text: &str, clause: &str, detail: String) -> Failure {
    let witness = if text.len() > 300 { format!("{}… ({} bytes)", prefix(text, 300), text.len()) } else { text.to_string() };
    Failure::new(clause, witness, detail, json!({ "text": text }))
}

fn prefix(s: &str, n: usize) -> &str {
    let mut e = n.min(s.len());
    while !s.is_char_boundary(e) {
        e -= 1;
    }
    &s[..e]
}

/// (opening text, closing text, filler) of every recursive construct: a tower of
/// depth d is open^d filler close^d embedded in a statement.
pub const TOWERS: &[(&str, &str, &str, &str, &str)] = &[
    // (statement prefix, open, filler, close, statement suffix)
    ("defvar a = ", "(x ", "1", ")", ";"),
    ("defvar a = ", "[", "1", "]", ";"),
    ("defvar a = ", "{", "1", "}", ";"),
    ("defvar a = ", "C<", "1", ">", ";"),
    ("defvar a = ", "!add(", "1", ", 1)", ";"),
    ("defvar a = ", "!cond(1: ", "1", ")", ";"),
    ("class A<", "list<", "int", ">", " x>;"),
    ("", "let a = 1 in ", "class B;", "", ""),
    ("", "let a = 1 in { ", "class B;", " }", ""),
    ("", "foreach i = [1] in ", "class B;", "", ""),
    ("", "foreach i = [1] in { ", "class B;", " }", ""),
    ("", "if 1 then ", "class B;", "", ""),
    ("", "if 1 then { ", "class B;", " } else { class D; }", ""),
    ("", "defset list<A> s = { ", "def d;", " }", ""),
    ("", "multiclass M { ", "def d;", " }", ""),
    ("", "#ifdef A\n", "class B;", "\n#endif\n", ""),
    ("", "#ifndef A\n", "class B;", "\n#else\nclass E;\n#endif\n", ""),
    ("", "/* ", "c", " */", ""),
];

/// (statement prefix, repeated unit, statement suffix): suffix/paste/separator chains.
const CHAINS: &[(&str, &str, &str)] = &[
    ("defvar a = x", ".f", ";"),
    ("defvar a = x", "#y", ";"),
    ("defvar a = x", "[0]", ";"),
    ("defvar a = x", "{0}", ";"),
    ("defvar a = [1", ", 1", "];"),
    ("class A : B", ", B", ";"),
    ("class A<int a", ", int b", ">;"),
    ("let a = 1", ", b = 2", " in class C;"),
    ("def d { int a = 1;", " let a = 2;", " }"),
    ("defvar a = (op x", ", y:$z", ");"),
    ("defvar a = \"s\"", " \"t\"", ";"),
    ("", "class A;", ""),
    ("", "def d : A<1>;\n", ""),
    ("", "x ", ""),
    ("", "} ", ""),
    ("", "@", ""),
    ("", "\"u\n", ""),
    ("", "#ifdef\n", ""),
    ("", "#endif\n", ""),
    ("", "#else\n", ""),
];

const OPENERS: &[&str] = &["\"u", "[{u", "/*u", "#ifdef A\n", "#ifndef A\n", "#else\n", "(", "[", "{", "<", "!cond(", "!add<"];

pub fn tower(t: &(&str, &str, &str, &str, &str), depth: usize) -> String {
    let mut s = String::new();
    s.push_str(t.0);
    for _ in 0..depth {
        s.push_str(t.1);
    }
    s.push_str(t.2);
    for _ in 0..depth {
        s.push_str(t.3);
    }
    s.push_str(t.4);
    s
}

impl Engine for C02 {
    fn id(&self) -> &'static str {
        "C02"
    }

    fn rule(&self, tier: Tier) -> String {
        format!(
            "the C01 input space (SIGMA words <= {} x 3 joiners, CORE words of length {}, files, prefixes, token mutations, variants) plus: \
             nesting towers of every depth 0..=256 (also left unclosed) for {} recursive constructs; chains of 1..={} repetitions of {} repeatable units; \
             each of {} openers inserted at every token boundary of every seed. non-trivial as in C01; towers/chains/openers always count.",
            tier.pick(3, 4),
            tier.pick(4, 5),
            TOWERS.len(),
            tier.pick(2000, 20000),
            CHAINS.len(),
            OPENERS.len(),
        )
    }

    fn assumptions(&self) -> Vec<String> {
        vec![
            "termination is decided by fuel: 256*(bytes+1)+256 ticks of ParserBase::{lex,start_node,start_node_at,save,error} (hook H1); a loop that makes none of these calls would only be caught by the worker's wall budget and address-space limit".into(),
            "work bound checked: nodes started <= 64*(tokens+1), syntax errors reported <= 64*(tokens+1), tokens saved == leaf tokens, lex calls <= tokens+1".into(),
            "nesting deeper than 256 is outside the property; every case runs on a thread with a 2 MiB stack like a server request".into(),
        ]
    }

    fn trace_always(&self) -> bool {
        false
    }

    fn explore(&self, tier: Tier, ctx: &mut Ctx) {
        // the whole exploration runs on a 2 MiB stack, the size a request gets on tokio's blocking pool
        let r = tgv_core::guard_on_stack(2 * 1024 * 1024, || self.explore_inner(tier, ctx));
        if let Err(p) = r {
            panic!("harness panic: {} at {}", p.message, p.location);
        }
    }

    fn eval_case(&self, case: &Value) -> Vec<Failure> {
        let text = case["text"].as_str().unwrap_or_default().to_string();
        let r = tgv_core::guard_on_stack(2 * 1024 * 1024, || check_total(&text).0);
        match r {
            Ok(Some((c, d))) => vec![failure(&text, c, d)],
            Ok(None) => vec![],
            Err(p) => vec![failure(&text, "panic", format!("{} at {}", p.message, p.location))],
        }
    }

    fn shrink(&self, case: &Value, _clause: &str) -> Vec<Value> {
        let text = case["text"].as_str().unwrap_or_default();
        shrink::text_deletions(text)
            .into_iter()
            .map(|t| json!({ "text": t }))
            .collect()
    }
}

impl C02 {
    fn explore_inner(&self, tier: Tier, ctx: &mut Ctx) {
        let mut run = |ctx: &mut Ctx, text: &str, nontrivial: bool, stratum: Stratum| -> bool {
            ctx.trace(|| json!({ "text": text }));
            ctx.case(nontrivial);
            ctx.add(stratum.name(), 1);
            if nontrivial {
                ctx.sample(|| json!({ "stratum": stratum.name(), "text": prefix(text, 160) }));
            }
            let (f, t, nodes) = check_total(text);
            if t > 0 {
                ctx.max("nodes_per_token_x100", nodes * 100 / (t + 1));
            }
            if let Some((clause, detail)) = f {
                ctx.fail(failure(text, clause, detail));
            }
            !ctx.expired()
        };

        // towers: every depth, closed and unclosed
        for t in TOWERS {
            for depth in 0..=256usize {
                if !ctx.mine() {
                    continue;
                }
                let full = tower(t, depth);
                if !run(ctx, &full, true, Stratum::Tower) {
                    return;
                }
                let mut open = String::new();
                open.push_str(t.0);
                for _ in 0..depth {
                    open.push_str(t.1);
                }
                if !run(ctx, &open, true, Stratum::Tower) {
                    return;
                }
                open.push_str(t.2);
                if !run(ctx, &open, true, Stratum::Tower) {
                    return;
                }
            }
        }
        // chains
        let reps: Vec<usize> = {
            let max = tier.pick(2000usize, 20000usize);
            let mut v: Vec<usize> = (1..=64).collect();
            let mut k = 128;
            while k <= max {
                v.push(k);
                k *= 2;
            }
            v.push(max);
            v
        };
        for c in CHAINS {
            for &n in &reps {
                if !ctx.mine() {
                    continue;
                }
                let mut s = String::with_capacity(c.0.len() + c.1.len() * n + c.2.len());
                s.push_str(c.0);
                for _ in 0..n {
                    s.push_str(c.1);
                }
                if !run(ctx, &s, true, Stratum::Repetition) {
                    return;
                }
                s.push_str(c.2);
                if !run(ctx, &s, true, Stratum::Repetition) {
                    return;
                }
            }
        }
        // openers at every token boundary of every seed
        let files = space::files();
        for (_, text) in &files.seeds {
            let toks = space::crude_tokens(text);
            for &(s, _) in toks.iter() {
                for o in OPENERS {
                    if !ctx.mine() {
                        continue;
                    }
                    let mut v = String::with_capacity(text.len() + o.len());
                    v.push_str(&text[..s]);
                    v.push_str(o);
                    v.push_str(&text[s..]);
                    if !run(ctx, &v, true, Stratum::Opener) {
                        return;
                    }
                }
            }
        }
        space::for_each_word(tier, ctx, |ctx, text, special| run(ctx, text, special, Stratum::Word));
        space::for_each_program_text(tier, ctx, &files, |ctx, text, st| run(ctx, text, true, st));
    }
}
