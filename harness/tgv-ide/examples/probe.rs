//! Debugging aid: reads a TableGen text on stdin, prints the diagnostics and, for every
//! identifier token, what go-to-definition answers at its first byte.
use std::io::Read;

use ide::file_system::FilePosition;
use syntax::parser::TextSize;
use tgv_ide::c06::id_tokens;
use tgv_ide::ws::Ws;

fn main() {
    let mut text = String::new();
    std::io::stdin().read_to_string(&mut text).unwrap();
    let ws = Ws::single(&text);
    let a = ws.analysis();
    for (f, list) in a.diagnostics() {
        for d in list {
            println!("diag {}: {:?} {}", ws.fs.path_of(f), d.location.range, d.message);
        }
    }
    for (s, e, name) in id_tokens(&text) {
        let got = a.goto_definition(FilePosition::new(ws.root, TextSize::from(s as u32)));
        println!("{s}..{e} {name}: {:?}", got.map(|g| g.range));
    }
}
