//! Well-typed programs of the supported core (C13) and single-fault seeding.
//!
//! Programs are well typed *by construction*: a fixed library of declarations plus
//! a menu of feature groups, each written against the library with the types the
//! TableGen Programmer's Reference requires. Faults are seeded on the emitted
//! text at sites the emitter recorded (class / multiclass / value references,
//! include paths, typed slots, argument lists, operator calls, terminators).

use crate::pm::*;
use crate::pmgen::{id, int, wrap_block};

fn s(x: &str) -> E {
    E::Str(x.to_string())
}

fn f(ty: Ty, name: &str, init: E) -> BI {
    BI::Field { doc: vec![], blank: false, ty, name: name.into(), init: Some(init) }
}

fn bang(op: &str, args: Vec<E>) -> E {
    E::Bang(op.into(), None, args)
}

fn bang_t(op: &str, ty: Ty, args: Vec<E>) -> E {
    E::Bang(op.into(), Some(ty), args)
}

fn class_a() -> Ty {
    Ty::Class("A".into())
}

fn list(t: Ty) -> Ty {
    Ty::List(Box::new(t))
}

fn def(name: &str, parents: Vec<CRef>, body: Option<Vec<BI>>) -> Item {
    Item::Def { doc: vec![], blank: false, name: Some(name.into()), parents, body }
}

fn a_of(args: Vec<E>) -> CRef {
    CRef::with("A", args)
}

/// The library every program starts with.
pub fn library() -> Vec<Item> {
    vec![
        def("op", vec![], None),
        Item::Class {
            doc: vec![],
            blank: false,
            name: "A".into(),
            targs: vec![TArg { ty: Ty::Int, name: "p".into(), default: None }, TArg { ty: Ty::Str, name: "q".into(), default: Some(s("d")) }],
            parents: vec![],
            body: Some(vec![
                f(Ty::Int, "f", id("p")),
                f(Ty::Str, "g", id("q")),
                f(Ty::Bit, "b", int(0)),
                f(Ty::Bits(2), "bb", E::Bits(vec![int(0), int(1)])),
                f(list(Ty::Int), "li", E::List(vec![id("p"), int(1)])),
                f(list(Ty::Str), "ls", E::List(vec![id("q")])),
                f(Ty::Dag, "d", E::Dag(Box::new(id("op")), vec![(id("p"), None), (id("q"), Some("n".into()))])),
                f(Ty::Code, "c", E::Code("body".into())),
            ]),
        },
        Item::Multiclass {
            doc: vec![],
            name: "MA".into(),
            targs: vec![TArg { ty: Ty::Int, name: "m".into(), default: None }, TArg { ty: Ty::Str, name: "n".into(), default: Some(s("x")) }],
            parents: vec![],
            body: vec![def("_one", vec![a_of(vec![id("m"), id("n")])], None), def("_two", vec![a_of(vec![bang("!add", vec![id("m"), int(1)])])], None)],
        },
        def("a0", vec![a_of(vec![int(0)])], None),
        def("a1", vec![a_of(vec![int(1), s("one")])], None),
        Item::Class { doc: vec![], blank: false, name: "D0".into(), targs: vec![], parents: vec![], body: None },
        Item::Class { doc: vec![], blank: false, name: "D1".into(), targs: vec![], parents: vec![CRef::plain("D0")], body: None },
        def("d0", vec![CRef::plain("D0")], None),
        def("dd", vec![CRef::plain("D1")], None),
        // one field of every type of the conversion matrix: `src.v<i>` is a value whose type is declared, not inferred
        Item::Class { doc: vec![], blank: false, name: "Src".into(), targs: vec![], parents: vec![], body: Some(conversion_types().into_iter().enumerate().map(|(i, (t, v))| f(t, &format!("v{i}"), v)).collect()) },
        def("src", vec![CRef::plain("Src")], None),
        Item::Defvar { name: "gi".into(), value: int(3) },
        Item::Defvar { name: "gs".into(), value: s("gs") },
        Item::Defvar { name: "gl".into(), value: E::List(vec![int(1), int(2)]) },
    ]
}

/// The types of the conversion matrix, each with a literal of the type.
pub fn conversion_types() -> Vec<(Ty, E)> {
    let d0 = || Ty::Class("D0".into());
    let d1 = || Ty::Class("D1".into());
    vec![
        (Ty::Bit, int(1)),
        (Ty::Int, int(1)),
        (Ty::Str, s("s")),
        (Ty::Code, E::Code("c".into())),
        (Ty::Dag, E::Dag(Box::new(id("op")), vec![])),
        (Ty::Bits(1), E::Bits(vec![int(1)])),
        (Ty::Bits(2), E::Bits(vec![int(1), int(0)])),
        (list(Ty::Int), E::List(vec![int(1)])),
        (list(Ty::Bit), E::List(vec![int(1)])),
        (list(Ty::Bits(1)), E::List(vec![E::Bits(vec![int(1)])])),
        (list(Ty::Str), E::List(vec![s("s")])),
        (list(Ty::Code), E::List(vec![E::Code("c".into())])),
        (list(list(Ty::Int)), E::List(vec![E::List(vec![int(1)])])),
        (d0(), id("d0")),
        (d1(), id("dd")),
        (list(d0()), E::List(vec![id("d0")])),
        (list(d1()), E::List(vec![id("dd")])),
    ]
}

/// `RecTy::typeIsConvertibleTo` of the TableGen reference implementation, for the types of the matrix
/// (audited against llvm-tblgen: see DESIGN section 5, C13): may a value of declared type `v`
/// initialise a slot of type `t`?
pub fn convertible(v: &Ty, t: &Ty) -> bool {
    if v == t {
        return true;
    }
    match (v, t) {
        (Ty::List(a), Ty::List(b)) => convertible(a, b),
        (Ty::Bit, Ty::Int) | (Ty::Bit, Ty::Bits(1)) => true,
        (Ty::Bits(_), Ty::Int) | (Ty::Bits(1), Ty::Bit) => true,
        (Ty::Int, Ty::Bit) | (Ty::Int, Ty::Bits(_)) => true,
        (Ty::Str, Ty::Code) | (Ty::Code, Ty::Str) => true,
        (Ty::Class(a), Ty::Class(b)) => a == "D1" && b == "D0",
        _ => false,
    }
}

/// One call of every operator form of DESIGN Appendix D, each initialising a field of the result type.
pub fn operator_fields() -> Vec<BI> {
    let i = || int(2);
    let li = || E::List(vec![int(1), int(2)]);
    let ls = || E::List(vec![s("a"), s("b")]);
    let dg = || E::Dag(Box::new(id("op")), vec![(int(1), Some("x".into()))]);
    let mut v = Vec::new();
    let mut n = 0;
    let mut add = |ty: Ty, e: E| {
        n += 1;
        v.push(f(ty, &format!("o{n}"), e));
    };
    for op in ["!add", "!and", "!mul", "!or", "!xor"] {
        add(Ty::Int, bang(op, vec![i(), int(3)]));
        add(Ty::Int, bang(op, vec![i(), int(3), int(4)]));
    }
    for op in ["!sub", "!div", "!shl", "!sra", "!srl"] {
        add(Ty::Int, bang(op, vec![int(8), i()]));
    }
    add(Ty::Bit, bang("!not", vec![int(0)]));
    add(Ty::Int, bang("!logtwo", vec![int(8)]));
    for op in ["!eq", "!ne"] {
        add(Ty::Bit, bang(op, vec![i(), int(3)]));
        add(Ty::Bit, bang(op, vec![s("a"), s("b")]));
        add(Ty::Bit, bang(op, vec![id("a0"), id("a1")]));
    }
    for op in ["!lt", "!le", "!gt", "!ge"] {
        add(Ty::Bit, bang(op, vec![i(), int(3)]));
        add(Ty::Bit, bang(op, vec![s("a"), s("b")]));
    }
    add(Ty::Int, bang("!if", vec![E::Bool(true), int(1), int(2)]));
    add(Ty::Str, bang("!if", vec![bang("!eq", vec![id("gi"), int(3)]), s("t"), s("e")]));
    add(Ty::Int, E::Cond(vec![(E::Bool(false), int(1)), (E::Bool(true), int(2))]));
    add(Ty::Str, bang("!strconcat", vec![s("a"), s("b")]));
    add(Ty::Str, bang("!strconcat", vec![s("a"), id("gs"), s("c")]));
    add(Ty::Str, bang("!substr", vec![s("abcdef"), int(1)]));
    add(Ty::Str, bang("!substr", vec![s("abcdef"), int(1), int(2)]));
    add(Ty::Int, bang("!find", vec![s("abc"), s("b")]));
    add(Ty::Int, bang("!find", vec![s("abc"), s("b"), int(1)]));
    add(Ty::Str, bang("!subst", vec![s("a"), s("b"), s("abc")]));
    add(Ty::Str, bang("!tolower", vec![s("ABC")]));
    add(Ty::Str, bang("!toupper", vec![s("abc")]));
    add(Ty::Str, bang("!repr", vec![int(1)]));
    // an empty list literal as either operand of the list-typed operators
    add(list(Ty::Int), bang("!if", vec![E::Bool(true), li(), E::List(vec![])]));
    add(list(Ty::Int), bang("!if", vec![E::Bool(false), E::List(vec![]), li()]));
    add(list(Ty::Int), bang("!listconcat", vec![E::List(vec![]), li()]));
    add(list(Ty::Int), bang("!listconcat", vec![li(), E::List(vec![])]));
    add(list(Ty::Int), bang("!listremove", vec![li(), E::List(vec![])]));
    add(Ty::Int, bang("!size", vec![li()]));
    add(Ty::Int, bang("!size", vec![s("abc")]));
    add(Ty::Int, bang("!size", vec![dg()]));
    add(Ty::Bit, bang("!empty", vec![li()]));
    add(Ty::Bit, bang("!empty", vec![s("")]));
    add(Ty::Int, bang("!head", vec![li()]));
    add(list(Ty::Int), bang("!tail", vec![li()]));
    add(list(Ty::Int), bang("!listconcat", vec![li(), E::List(vec![int(3)])]));
    add(list(Ty::Int), bang("!listconcat", vec![li(), li(), id("gl")]));
    add(list(Ty::Int), bang("!listremove", vec![li(), E::List(vec![int(2)])]));
    add(list(Ty::Int), bang("!listsplat", vec![int(0), int(3)]));
    add(list(Ty::Int), bang("!listflatten", vec![E::List(vec![li(), E::List(vec![int(3)])])]));
    add(Ty::Str, bang("!interleave", vec![ls(), s(", ")]));
    add(Ty::Str, bang("!interleave", vec![li(), s("-")]));
    add(list(Ty::Int), bang("!range", vec![int(4)]));
    add(list(Ty::Int), bang("!range", vec![int(1), int(4)]));
    add(list(Ty::Int), bang("!range", vec![int(1), int(8), int(2)]));
    add(list(Ty::Int), bang("!range", vec![li()]));
    add(list(Ty::Int), E::BForeach("e".into(), Box::new(li()), Box::new(bang("!add", vec![id("e"), int(1)]))));
    add(list(Ty::Int), E::BFilter("e".into(), Box::new(li()), Box::new(bang("!gt", vec![id("e"), int(1)]))));
    add(Ty::Int, E::BFoldl(Box::new(int(0)), Box::new(li()), "acc".into(), "e".into(), Box::new(bang("!add", vec![id("acc"), id("e")]))));
    // the accumulator has the type of the start value, the element variable the list's element type
    add(Ty::Int, E::BFoldl(Box::new(int(0)), Box::new(ls()), "acc".into(), "e".into(), Box::new(bang("!add", vec![id("acc"), bang("!size", vec![id("e")])]))));
    add(Ty::Str, E::BFoldl(Box::new(s("")), Box::new(li()), "acc".into(), "e".into(), Box::new(bang("!strconcat", vec![id("acc"), bang_t("!cast", Ty::Str, vec![id("e")])]))));
    add(class_a(), bang_t("!cast", class_a(), vec![s("a0")]));
    add(Ty::Str, bang_t("!cast", Ty::Str, vec![int(1)]));
    add(Ty::Bit, bang_t("!isa", class_a(), vec![id("a0")]));
    add(Ty::Bit, bang_t("!exists", class_a(), vec![s("a0")]));
    add(Ty::Bit, bang("!initialized", vec![int(1)]));
    add(Ty::Dag, bang("!dag", vec![id("op"), li(), ls()]));
    add(Ty::Dag, bang("!con", vec![dg(), dg()]));
    add(Ty::Dag, bang("!setdagop", vec![dg(), id("op")]));
    add(Ty::Int, bang_t("!getdagarg", Ty::Int, vec![dg(), int(0)]));
    add(Ty::Int, bang_t("!getdagarg", Ty::Int, vec![dg(), s("x")]));
    add(Ty::Dag, bang("!setdagarg", vec![dg(), int(0), int(2)]));
    add(Ty::Str, bang("!getdagname", vec![dg(), int(0)]));
    add(Ty::Dag, bang("!setdagname", vec![dg(), int(0), s("y")]));
    v
}

/// Feature groups: each is valid on top of the library.
pub fn features() -> Vec<(&'static str, Vec<Item>)> {
    let mut all = base_features();
    all.extend(conversion_features());
    all.push(("operand-conversions", operand_conversions()));
    all.push(("result-conversions", result_conversions()));
    all
}

fn ty_of(t: &str) -> Ty {
    if let Some(inner) = t.strip_prefix("list<").and_then(|x| x.strip_suffix('>')) {
        return list(ty_of(inner));
    }
    if let Some(n) = t.strip_prefix("bits<").and_then(|x| x.strip_suffix('>')) {
        return Ty::Bits(n.parse().unwrap_or(1));
    }
    match t {
        "bit" => Ty::Bit,
        "int" => Ty::Int,
        "string" => Ty::Str,
        "code" => Ty::Code,
        "dag" => Ty::Dag,
        c => Ty::Class(c.to_string()),
    }
}

/// Which declared types the result of each operator form may initialise: `result_conversions.tsv` lists the
/// (slot type, call) pairs llvm-tblgen 14 accepts at type level - the operands are the template parameters of
/// a class that is never instantiated, so nothing folds (tools/gen_result_conversions.py; audited again by the
/// thorough tier). One field per pair.
pub fn result_conversions() -> Vec<Item> {
    let fields: Vec<BI> = include_str!("result_conversions.tsv")
        .lines()
        .filter_map(|l| l.split_once('\t'))
        .enumerate()
        .map(|(i, (t, e))| f(ty_of(t), &format!("rc{i}"), E::Raw(e.to_string())))
        .collect();
    let p = |ty: Ty, n: &str| TArg { ty, name: n.into(), default: None };
    vec![Item::Class {
        doc: vec![],
        blank: false,
        name: "ResConv".into(),
        targs: vec![p(Ty::Int, "pi"), p(Ty::Bit, "pb"), p(Ty::Bits(2), "p2"), p(Ty::Str, "ps"), p(list(Ty::Int), "pli"), p(list(Ty::Bit), "plb"), p(list(Ty::Str), "pls"), p(class_a(), "pa")],
        parents: vec![],
        body: Some(fields),
    }]
}

/// Operator calls whose operands are values of declared types that convert to what the operator takes
/// (a bit where an int is asked for, code for string, a list of bits for a list of int ...): the table
/// `operand_conversions.tsv` lists the calls llvm-tblgen 14 accepts with the stated result type
/// (tools/gen_operand_conversions.py; audited again by the thorough tier). One field per call.
pub fn operand_conversions() -> Vec<Item> {
    let ty = |t: &str| match t {
        "bit" => Ty::Bit,
        "int" => Ty::Int,
        "string" => Ty::Str,
        _ => list(Ty::Int),
    };
    let fields: Vec<BI> = include_str!("operand_conversions.tsv")
        .lines()
        .filter_map(|l| l.split_once('\t'))
        .enumerate()
        .map(|(i, (t, e))| f(ty(t), &format!("oc{i}"), E::Raw(e.to_string())))
        .collect();
    vec![def("opconv", vec![], Some(fields))]
}

/// Every convertible pair of the matrix, one group per kind of slot: a field initialiser, a body let, a
/// template argument, a parameter default, a multiclass argument, a group let. (The groups are left out of
/// the all-groups-together program: they interact with nothing and would only make it slow.)
pub fn conversion_features() -> Vec<(&'static str, Vec<Item>)> {
    let c = |name: &str, targs: Vec<TArg>, parents: Vec<CRef>, body: Option<Vec<BI>>| Item::Class { doc: vec![], blank: false, name: name.into(), targs, parents, body };
    let types = conversion_types();
    let srcv = |i: usize| E::Field(Box::new(id("src")), format!("v{i}"));
    let pairs: Vec<(usize, usize)> = (0..types.len()).flat_map(|i| (0..types.len()).map(move |j| (i, j))).filter(|&(i, j)| convertible(&types[i].0, &types[j].0)).collect();
    let slots = || c("Slots", vec![], vec![], Some(types.iter().enumerate().map(|(j, (t, _))| f(t.clone(), &format!("s{j}"), E::Unset)).collect()));
    let mut out: Vec<(&'static str, Vec<Item>)> = Vec::new();
    out.push(("conversions-field", vec![def("conv1", vec![], Some(pairs.iter().map(|&(i, j)| f(types[j].0.clone(), &format!("c{i}_{j}"), srcv(i))).collect()))]));
    out.push(("conversions-let", vec![slots(), def("conv2", vec![CRef::plain("Slots")], Some(pairs.iter().map(|&(i, j)| BI::Let { name: format!("s{j}"), value: srcv(i) }).collect()))]));
    let mut items = Vec::new();
    for (j, (t, _)) in types.iter().enumerate() {
        items.push(c(&format!("SlotArg{j}"), vec![TArg { ty: t.clone(), name: "sp".into(), default: None }], vec![], Some(vec![f(t.clone(), "held", id("sp"))])));
    }
    for &(i, j) in &pairs {
        items.push(def(&format!("conv3_{i}_{j}"), vec![CRef::with(&format!("SlotArg{j}"), vec![srcv(i)])], None));
    }
    out.push(("conversions-argument", items));
    out.push(("conversions-default", pairs.iter().map(|&(i, j)| c(&format!("convDef{i}_{j}"), vec![TArg { ty: types[j].0.clone(), name: "dp".into(), default: Some(srcv(i)) }], vec![], None)).collect()));
    let mut items = vec![slots()];
    for (j, (t, _)) in types.iter().enumerate() {
        items.push(Item::Multiclass { doc: vec![], name: format!("MSlot{j}"), targs: vec![TArg { ty: t.clone(), name: "mp".into(), default: None }], parents: vec![], body: vec![def("_m", vec![CRef::plain("Slots")], Some(vec![BI::Let { name: format!("s{j}"), value: id("mp") }]))] });
    }
    for &(i, j) in &pairs {
        items.push(Item::Defm { name: Some(format!("conv5_{i}_{j}")), parents: vec![CRef::with(&format!("MSlot{j}"), vec![srcv(i)])] });
    }
    out.push(("conversions-multiclass", items));
    out.push(("conversions-group-let", vec![slots(), Item::Let { binds: pairs.iter().map(|&(i, j)| (format!("s{j}"), srcv(i))).collect(), body: vec![def("conv4", vec![CRef::plain("Slots")], None)], braces: false }]));
    out
}

fn base_features() -> Vec<(&'static str, Vec<Item>)> {
    let c = |name: &str, targs: Vec<TArg>, parents: Vec<CRef>, body: Option<Vec<BI>>| Item::Class { doc: vec![], blank: false, name: name.into(), targs, parents, body };
    let ti = |n: &str| TArg { ty: Ty::Int, name: n.into(), default: None };
    vec![
        (
            "class-inherit-let",
            vec![c("C1", vec![ti("x")], vec![a_of(vec![id("x")])], Some(vec![f(Ty::Int, "h", id("x")), BI::Let { name: "f".into(), value: int(2) }, BI::Let { name: "g".into(), value: s("z") }]))],
        ),
        (
            "class-defaults",
            vec![
                c(
                    "C2",
                    vec![ti("x"), TArg { ty: Ty::Str, name: "y".into(), default: Some(s("k")) }, TArg { ty: list(Ty::Int), name: "z".into(), default: Some(E::List(vec![int(1)])) }],
                    vec![a_of(vec![id("x"), id("y")])],
                    Some(vec![f(Ty::Str, "s2", E::Paste(Box::new(id("y")), Box::new(s("t")))), f(list(Ty::Int), "z2", id("z"))]),
                ),
                def("c2a", vec![CRef::with("C2", vec![int(1)])], None),
                def("c2b", vec![CRef::with("C2", vec![int(1), s("w")])], None),
                def("c2c", vec![CRef::with("C2", vec![int(1), s("w"), E::List(vec![int(5), int(6)])])], None),
            ],
        ),
        (
            "def-overrides",
            vec![def(
                "d1",
                vec![a_of(vec![int(5)])],
                Some(vec![
                    BI::Let { name: "g".into(), value: s("z") },
                    BI::Let { name: "li".into(), value: E::List(vec![int(7)]) },
                    BI::Let { name: "bb".into(), value: E::Bits(vec![int(1), int(0)]) },
                    BI::Let { name: "b".into(), value: int(1) },
                    BI::Let { name: "d".into(), value: E::Dag(Box::new(id("op")), vec![]) },
                    BI::Let { name: "c".into(), value: E::Code("other".into()) },
                    f(Ty::Int, "own", int(1)),
                ]),
            )],
        ),
        (
            "record-typed",
            vec![
                c(
                    "B",
                    vec![TArg { ty: class_a(), name: "a".into(), default: None }, TArg { ty: list(class_a()), name: "many".into(), default: Some(E::List(vec![])) }],
                    vec![a_of(vec![int(1), s("b")])],
                    Some(vec![f(class_a(), "own", id("a")), f(list(class_a()), "all", id("many")), f(Ty::Int, "viaf", E::Field(Box::new(id("a")), "f".into()))]),
                ),
                def("b1", vec![CRef::with("B", vec![id("a1")])], None),
                def("b2", vec![CRef::with("B", vec![id("a0"), E::List(vec![id("a0"), id("a1")])])], None),
            ],
        ),
        ("defm", vec![Item::Defm { name: Some("i1".into()), parents: vec![CRef::with("MA", vec![int(1)])] }, Item::Defm { name: Some("i2".into()), parents: vec![CRef::with("MA", vec![int(2), s("y")])] }, Item::Defm { name: None, parents: vec![CRef::with("MA", vec![int(3)])] }]),
        (
            "multiclass-inherit",
            vec![
                Item::Multiclass { doc: vec![], name: "MB".into(), targs: vec![ti("k")], parents: vec![CRef::with("MA", vec![id("k")])], body: vec![def("_three", vec![a_of(vec![id("k")])], None)] },
                Item::Defm { name: Some("i3".into()), parents: vec![CRef::with("MB", vec![int(3)])] },
            ],
        ),
        (
            // global variables used inside a multiclass body: in a def's parent arguments and fields, in a nested defm
            "multiclass-uses-globals",
            vec![
                Item::Multiclass {
                    doc: vec![],
                    name: "MG".into(),
                    targs: vec![ti("k")],
                    parents: vec![],
                    body: vec![
                        def("_g", vec![a_of(vec![id("gi"), id("gs")])], Some(vec![f(Ty::Int, "viag", bang("!add", vec![id("gi"), id("k")])), f(list(Ty::Int), "vl", id("gl"))])),
                        Item::Defm { name: Some("_n".into()), parents: vec![CRef::with("MA", vec![id("gi"), id("gs")])] },
                    ],
                },
                Item::Defm { name: Some("ig".into()), parents: vec![CRef::with("MG", vec![int(1)])] },
            ],
        ),
        (
            // iteration over ranges; a defm with two (different) multiclass parents
            "foreach-range-defm-multi",
            vec![
                Item::Foreach { var: "ri".into(), list: E::Raw("0...2".into()), body: vec![Item::Def { doc: vec![], blank: false, name: None, parents: vec![a_of(vec![id("ri")])], body: None }], braces: false },
                Item::Foreach { var: "rj".into(), list: E::Raw("{0-2, 5}".into()), body: vec![Item::Def { doc: vec![], blank: false, name: None, parents: vec![a_of(vec![bang("!add", vec![id("rj"), int(1)]), s("r")])], body: None }], braces: true },
                Item::Multiclass { doc: vec![], name: "MC2".into(), targs: vec![ti("q2")], parents: vec![], body: vec![def("_cc", vec![a_of(vec![id("q2")])], None)] },
                Item::Defm { name: Some("dm2".into()), parents: vec![CRef::with("MA", vec![int(1)]), CRef::with("MC2", vec![int(2)])] },
            ],
        ),
        ("foreach-list", vec![Item::Foreach { var: "i".into(), list: E::List(vec![int(1)]), body: vec![def("fe", vec![a_of(vec![id("i")])], Some(vec![f(Ty::Int, "twice", bang("!add", vec![id("i"), id("i")]))]))], braces: false }]),
        ("foreach-var-list", vec![Item::Foreach { var: "i".into(), list: id("gl"), body: vec![Item::Def { doc: vec![], blank: false, name: None, parents: vec![a_of(vec![id("i"), s("r")])], body: None }], braces: true }]),
        (
            "if-else",
            vec![Item::If { cond: bang("!lt", vec![id("gi"), int(5)]), then: vec![def("t", vec![a_of(vec![int(1)])], None)], then_braces: true, els: Some(vec![def("e", vec![a_of(vec![int(2)])], None)]) }],
        ),
        (
            "defset",
            vec![
                Item::Defset { ty: list(class_a()), name: "set1".into(), body: vec![def("s1", vec![a_of(vec![int(1)])], None), def("s2", vec![a_of(vec![int(2)])], None)] },
                Item::Defvar { name: "n".into(), value: bang("!size", vec![id("set1")]) },
                def("usesn", vec![], Some(vec![f(Ty::Int, "count", id("n")), f(list(class_a()), "members", id("set1"))])),
                // the members are values of their own, by name
                def("usess", vec![], Some(vec![f(class_a(), "first", id("s1")), f(list(class_a()), "both", E::List(vec![id("s1"), id("s2")])), f(Ty::Int, "viaf", E::Field(Box::new(id("s2")), "f".into()))])),
            ],
        ),
        ("let-group", vec![Item::Let { binds: vec![("f".into(), int(9)), ("g".into(), s("l"))], body: vec![def("l1", vec![a_of(vec![int(1)])], None), def("l2", vec![a_of(vec![int(2)])], None)], braces: true }]),
        (
            // the arguments of a later parent see the fields inherited from an earlier one
            "parent-args-see-earlier-parents",
            vec![
                c("Sized", vec![], vec![], Some(vec![f(Ty::Int, "Width", int(4))])),
                c("Slot", vec![ti("n")], vec![], Some(vec![f(Ty::Int, "Count", id("n"))])),
                def("r0", vec![CRef::plain("Sized"), CRef::with("Slot", vec![id("Width")])], None),
                c("Packed", vec![], vec![CRef::plain("Sized"), CRef::with("Slot", vec![bang("!add", vec![id("Width"), int(1)])])], None),
                def("r1", vec![CRef::plain("Packed")], None),
            ],
        ),
        (
            // a parameter without default declared after one that has a default
            "non-trailing-default",
            vec![
                c("ND", vec![ti("a"), TArg { ty: Ty::Int, name: "b".into(), default: Some(int(1)) }, TArg { ty: Ty::Str, name: "c".into(), default: None }], vec![], Some(vec![f(Ty::Str, "held", id("c"))])),
                def("nd1", vec![CRef::with("ND", vec![int(5), int(2), s("s")])], None),
                def("nd2", vec![], Some(vec![f(Ty::Class("ND".into()), "k", E::ClassVal("ND".into(), vec![int(5), int(2), s("s")], vec![]))])),
            ],
        ),
        (
            // bit ranges written with a dash (`7-4` lexes as `7` and `-4`), forwards and backwards, and single bits
            "bit-range-dash",
            vec![def(
                "w8",
                vec![],
                Some(vec![
                    f(Ty::Bits(8), "word", int(0)),
                    f(Ty::Bits(4), "hi4", E::Raw("word{7-4}".into())),
                    f(Ty::Bits(4), "rev4", E::Raw("word{2-5}".into())),
                    f(Ty::Bits(2), "lo2", E::Raw("word{1-0}".into())),
                    f(Ty::Bits(3), "mix3", E::Raw("word{7, 3-2}".into())),
                    f(Ty::Bits(4), "dots4", E::Raw("word{7...4}".into())),
                    f(Ty::Bit, "one", E::Raw("word{3}".into())),
                    f(Ty::Int, "asint", E::Raw("word{6-1}".into())),
                ]),
            )],
        ),
        (
            "class-values",
            vec![def(
                "cv",
                vec![],
                Some(vec![
                    f(class_a(), "k", E::ClassVal("A".into(), vec![int(3)], vec![])),
                    f(Ty::Int, "kf", E::Field(Box::new(E::ClassVal("A".into(), vec![int(4), s("w")], vec![])), "f".into())),
                    f(list(class_a()), "ks", E::List(vec![E::ClassVal("A".into(), vec![int(1)], vec![]), id("a0")])),
                ]),
            )],
        ),
        (
            "field-access",
            vec![def(
                "fa",
                vec![],
                Some(vec![
                    f(Ty::Int, "x1", E::Field(Box::new(id("a0")), "f".into())),
                    f(Ty::Str, "x2", E::Field(Box::new(id("a1")), "g".into())),
                    f(list(Ty::Int), "x3", E::Field(Box::new(id("a0")), "li".into())),
                    f(Ty::Int, "x4", E::ElemAt(Box::new(E::Field(Box::new(id("a0")), "li".into())), 0)),
                    f(Ty::Bit, "x5", E::BitAt(Box::new(E::Field(Box::new(id("a0")), "bb".into())), 0)),
                    f(Ty::Bits(2), "x6", E::BitRange(Box::new(E::Field(Box::new(id("a0")), "bb".into())), 1, 0)),
                    f(list(Ty::Int), "x7", E::Slice(Box::new(E::Field(Box::new(id("a0")), "li".into())), 0, 1)),
                    f(Ty::Dag, "x8", E::Field(Box::new(id("a0")), "d".into())),
                ]),
            )],
        ),
        (
            "forward-declaration",
            vec![
                c("Fwd", vec![], vec![], None),
                c("Fwd", vec![ti("w")], vec![], Some(vec![f(Ty::Int, "width", id("w"))])),
                def("r8", vec![CRef::with("Fwd", vec![int(8)])], Some(vec![f(Ty::Int, "twice", bang("!add", vec![id("width"), int(1)]))])),
                def("fwduser", vec![], Some(vec![f(Ty::Int, "viaf", E::Field(Box::new(E::ClassVal("Fwd".into(), vec![int(2)], vec![])), "width".into()))])),
            ],
        ),
        ("operators", vec![def("ops", vec![], Some(operator_fields()))]),
        (
            // every kind of scoped name is reused, after its scope has ended, as the name of a def that is
            // then passed where a record of class A is required: a leaked binding (an int) would be incompatible
            "scoped-name-reuse",
            vec![
                Item::Defvar { name: "nr_l1".into(), value: E::BForeach("nr".into(), Box::new(id("gl")), Box::new(bang("!add", vec![id("nr"), int(1)]))) },
                Item::Defvar { name: "nr_l2".into(), value: E::BFilter("nr2".into(), Box::new(id("gl")), Box::new(bang("!gt", vec![id("nr2"), int(1)]))) },
                Item::Defvar { name: "nr_l3".into(), value: E::BFoldl(Box::new(int(0)), Box::new(id("gl")), "nacc".into(), "nel".into(), Box::new(bang("!add", vec![id("nacc"), id("nel")]))) },
                def("nr_h", vec![], Some(vec![f(list(Ty::Int), "in_body", E::BForeach("nrb".into(), Box::new(id("gl")), Box::new(bang("!add", vec![id("nrb"), int(1)]))))])),
                Item::Foreach { var: "nit".into(), list: E::List(vec![int(1)]), body: vec![def("nr_fe", vec![a_of(vec![id("nit")])], None)], braces: true },
                Item::If { cond: E::Bool(true), then: vec![Item::Defvar { name: "nblk".into(), value: int(1) }, def("nr_if", vec![a_of(vec![id("nblk")])], None)], then_braces: true, els: None },
                c("NRT", vec![ti("nta")], vec![], Some(vec![f(Ty::Int, "nfld", id("nta"))])),
                Item::Multiclass { doc: vec![], name: "NRM".into(), targs: vec![ti("nma")], parents: vec![], body: vec![def("_nrm", vec![a_of(vec![id("nma")])], None)] },
                c("NRUse", vec![TArg { ty: class_a(), name: "r".into(), default: None }], vec![], Some(vec![f(class_a(), "own", id("r"))])),
                def("nr", vec![a_of(vec![int(1)])], None),
                def("nr2", vec![a_of(vec![int(2)])], None),
                def("nacc", vec![a_of(vec![int(3)])], None),
                def("nel", vec![a_of(vec![int(4)])], None),
                def("nrb", vec![a_of(vec![int(5)])], None),
                def("nit", vec![a_of(vec![int(6)])], None),
                def("nblk", vec![a_of(vec![int(7)])], None),
                def("nta", vec![a_of(vec![int(8)])], None),
                def("nfld", vec![a_of(vec![int(9)])], None),
                def("nma", vec![a_of(vec![int(10)])], None),
                def("nru1", vec![CRef::with("NRUse", vec![id("nr")])], None),
                def("nru2", vec![CRef::with("NRUse", vec![id("nr2")])], None),
                def("nru3", vec![CRef::with("NRUse", vec![id("nacc")])], None),
                def("nru4", vec![CRef::with("NRUse", vec![id("nel")])], None),
                def("nru5", vec![CRef::with("NRUse", vec![id("nrb")])], None),
                def("nru6", vec![CRef::with("NRUse", vec![id("nit")])], None),
                def("nru7", vec![CRef::with("NRUse", vec![id("nblk")])], None),
                def("nru8", vec![CRef::with("NRUse", vec![id("nta")])], None),
                def("nru9", vec![CRef::with("NRUse", vec![id("nfld")])], None),
                def("nru10", vec![CRef::with("NRUse", vec![id("nma")])], None),
            ],
        ),
        ("assert-dump", vec![Item::Assert { cond: bang("!eq", vec![id("gi"), int(3)]), msg: s("msg") }, Item::Dump(E::Paste(Box::new(s("text")), Box::new(id("gs"))))]),
        (
            "subclass-cast",
            vec![
                def("holder", vec![], Some(vec![f(Ty::Class("D0".into()), "up", id("dd")), f(list(Ty::Class("D0".into())), "ups", E::List(vec![id("dd")]))])),
                // the same through a top-level let, a body let and a template argument; `down` asks for the subclass
                c(
                    "HolderD",
                    vec![TArg { ty: Ty::Class("D0".into()), name: "hp".into(), default: Some(id("dd")) }],
                    vec![],
                    Some(vec![f(Ty::Class("D0".into()), "up", id("hp")), f(list(Ty::Class("D0".into())), "ups", E::List(vec![])), f(Ty::Class("D1".into()), "down", E::Unset)]),
                ),
                Item::Let {
                    binds: vec![("up".into(), id("dd")), ("ups".into(), E::List(vec![id("dd"), id("d0")])), ("down".into(), id("dd"))],
                    body: vec![def("hd1", vec![CRef::with("HolderD", vec![id("dd")])], None), def("hd2", vec![CRef::plain("HolderD")], Some(vec![BI::Let { name: "up".into(), value: E::ClassVal("D1".into(), vec![], vec![]) }]))],
                    braces: true,
                },
                Item::Let { binds: vec![("up".into(), E::ClassVal("D1".into(), vec![], vec![]))], body: vec![def("hd3", vec![CRef::plain("HolderD")], None)], braces: false },
            ],
        ),
        (
            "defvar-typed",
            vec![
                Item::Defvar { name: "v1".into(), value: E::Field(Box::new(id("a0")), "f".into()) },
                Item::Defvar { name: "v2".into(), value: bang("!strconcat", vec![id("gs"), s("!")]) },
                def("u1", vec![], Some(vec![f(Ty::Int, "y", id("v1")), f(Ty::Str, "y2", id("v2")), BI::Defvar { name: "loc".into(), value: int(4) }, f(Ty::Int, "y3", id("loc"))])),
            ],
        ),
        (
            "literals",
            vec![def(
                "lits",
                vec![],
                Some(vec![
                    f(Ty::Int, "n1", int(-7)),
                    f(Ty::Int, "n2", E::Raw("0x1F".into())),
                    f(Ty::Int, "n3", E::Raw("0b101".into())),
                    f(Ty::Int, "n4", E::Unset),
                    f(Ty::Bit, "t1", E::Bool(true)),
                    f(Ty::Bits(3), "t2", E::Bits(vec![int(1), int(0), int(1)])),
                    f(list(Ty::Int), "t3", E::List(vec![])),
                    f(list(list(Ty::Int)), "t4", E::List(vec![E::List(vec![int(1)]), E::List(vec![int(2), int(3)])])),
                    f(Ty::Dag, "t5", E::Dag(Box::new(id("op")), vec![(E::Dag(Box::new(id("op")), vec![(int(1), None)]), None), (s("two"), Some("b".into()))])),
                    f(Ty::Str, "t6", E::Paste(Box::new(s("a")), Box::new(E::Paste(Box::new(s("b")), Box::new(s("c")))))),
                    f(Ty::Code, "t7", E::Code("return 0;".into())),
                ]),
            )],
        ),
    ]
}

/// Valid programs: library + one or two feature groups (optionally inside a block wrapper), in four layouts
/// (one file; the library included; a diamond; a chain root -> mid -> library).
pub fn valid_programs(pairs: bool, mut f: impl FnMut(&Program, &str) -> bool) {
    let feats = features();
    let mut combos: Vec<Vec<usize>> = (0..feats.len()).map(|i| vec![i]).collect();
    if pairs {
        for i in 0..feats.len() {
            for j in 0..feats.len() {
                // (the two table groups are large and interact with nothing: singles only)
                let table = |k: usize| feats[k].0 == "operand-conversions" || feats[k].0 == "result-conversions";
                if i != j && !table(i) && !table(j) && !(feats[i].0.starts_with("conversions") && feats[j].0.starts_with("conversions")) {
                    combos.push(vec![i, j]);
                }
            }
        }
    }
    combos.push((0..feats.len()).filter(|&i| !feats[i].0.starts_with("conversions") && feats[i].0 != "operand-conversions" && feats[i].0 != "result-conversions").collect());
    for combo in combos {
        let tag: String = combo.iter().map(|&i| feats[i].0).collect::<Vec<_>>().join("+");
        let body: Vec<Item> = combo.iter().flat_map(|&i| feats[i].1.clone()).collect();
        // wrappers only for single groups without multiclasses / classes (top-level-only statements)
        let wrappable = combo.len() == 1 && !body.iter().any(|it| matches!(it, Item::Multiclass { .. } | Item::Class { .. } | Item::Defset { .. } | Item::Defvar { .. }));
        // (a group let would need every def inside to have the field: the let-group feature covers it)
        let wrappers: Vec<usize> = if wrappable { vec![0, 1, 5, 6] } else { vec![0] };
        for w in wrappers {
            let wrapped = wrap_block(w, body.clone());
            // (the chain only for single groups without wrapper: it varies the include depth of the library, nothing else)
            for layout in 0..if combo.len() == 1 && w == 0 { 4 } else { 3 } {
                let p = if layout == 3 {
                    // a chain: the library is two includes away from the root
                    let mut root = vec![Item::Include("mid.td".into())];
                    root.extend(wrapped.clone());
                    let mid = vec![Item::Include("inc.td".into()), def("mid0", vec![a_of(vec![int(9)])], None)];
                    Program { files: vec![("a.td".into(), root), ("mid.td".into(), mid), ("inc.td".into(), library())] }
                } else if layout == 0 {
                    let mut all = library();
                    all.extend(wrapped.clone());
                    Program { files: vec![("a.td".into(), all)] }
                } else if layout == 2 {
                    // a diamond: the library is included directly and again through mid.td
                    let mut root = vec![Item::Include("inc.td".into()), Item::Include("mid.td".into())];
                    root.extend(wrapped.clone());
                    let mid = vec![Item::Include("inc.td".into()), def("mid0", vec![a_of(vec![int(9)])], None)];
                    Program { files: vec![("a.td".into(), root), ("inc.td".into(), library()), ("mid.td".into(), mid)] }
                } else {
                    let mut root = vec![Item::Include("inc.td".into())];
                    root.extend(wrapped.clone());
                    Program { files: vec![("a.td".into(), root), ("inc.td".into(), library())] }
                };
                if !f(&p, &format!("{tag} wrapper {w} layout {layout}")) {
                    return;
                }
            }
        }
    }
}

// ---------------------------------------------------------------------------
// faults

#[derive(Debug, Clone)]
pub struct Fault {
    pub class: &'static str,
    pub file: usize,
    /// replace text[span] of `file` by `text`
    pub span: (usize, usize),
    pub text: String,
    /// where a diagnostic must overlap, in the mutated text
    pub site: (usize, usize),
}

/// (min, max) number of arguments of an operator form, from the Programmer's Reference.
pub fn arity(op: &str) -> (usize, usize) {
    match op {
        "!add" | "!and" | "!mul" | "!or" | "!xor" | "!strconcat" | "!listconcat" | "!con" => (2, usize::MAX),
        "!sub" | "!div" | "!shl" | "!sra" | "!srl" | "!eq" | "!ne" | "!lt" | "!le" | "!gt" | "!ge" | "!listremove" | "!listsplat" | "!interleave" | "!setdagop" | "!getdagarg" | "!getdagname" => (2, 2),
        "!not" | "!logtwo" | "!tolower" | "!toupper" | "!repr" | "!size" | "!empty" | "!head" | "!tail" | "!listflatten" | "!cast" | "!isa" | "!exists" | "!initialized" | "!getdagop" => (1, 1),
        "!if" | "!subst" | "!dag" | "!setdagarg" | "!setdagname" => (3, 3),
        "!substr" | "!find" => (2, 3),
        "!range" => (1, 3),
        _ => (0, usize::MAX),
    }
}

/// Values the reference calls incompatible with a declared type: literals, and for the types of the
/// conversion matrix every field of `src` whose declared type does not convert.
fn incompatible(t: &Ty) -> Vec<String> {
    let mut out: Vec<String> = incompatible_literals(t).into_iter().map(|x| x.to_string()).collect();
    let types = conversion_types();
    if types.iter().any(|(x, _)| x == t) {
        for (i, (v, _)) in types.iter().enumerate() {
            if !convertible(v, t) {
                out.push(format!("src.v{i}"));
            }
        }
    }
    out
}

fn incompatible_literals(t: &Ty) -> Vec<&'static str> {
    // `op` is a def without parents: a record, but of no class a slot asks for
    match t {
        Ty::Int => vec!["\"wrong\"", "[\"wrong\"]", "(op)", "op", "[{ c }]"],
        Ty::Bit | Ty::Bits(_) => vec!["\"wrong\"", "[\"wrong\"]", "(op)", "op"],
        Ty::Str | Ty::Code => vec!["77", "[77]", "(op)", "op"],
        Ty::List(inner) => {
            let mut v = vec!["77", "\"wrong\"", "(op)", "op"];
            // a list whose element has the wrong type
            v.push(match **inner {
                Ty::Int | Ty::Bit | Ty::Bits(_) => "[\"wrong\"]",
                Ty::Str | Ty::Code => "[77]",
                Ty::Class(_) => "[op]",
                Ty::List(_) => "[77]",
                Ty::Dag => "[77]",
            });
            v
        }
        Ty::Dag => vec!["77", "\"wrong\"", "[77]", "op"],
        // `d0` is a record of the base class D0 only (declared by the feature that declares D1)
        Ty::Class(c) if c == "D1" => vec!["77", "\"wrong\"", "[77]", "(op)", "op", "d0", "D0<>"],
        Ty::Class(_) => vec!["77", "\"wrong\"", "[77]", "(op)", "op"],
    }
}

pub fn faults(em: &Emitted) -> Vec<Fault> {
    let mut out = Vec::new();
    let replace = |class: &'static str, file: usize, span: (usize, usize), text: &str| Fault { class, file, span, text: text.to_string(), site: (span.0, span.0 + text.len()) };
    for o in &em.occs {
        if o.is_decl || o.target.is_none() {
            continue;
        }
        match o.role {
            Role::ClassRef => out.push(replace("undefined-class", o.file, o.range, "NoSuchClass")),
            Role::MulticlassRef => out.push(replace("undefined-multiclass", o.file, o.range, "NoSuchMulti")),
            Role::ValueUse => out.push(replace("undefined-identifier", o.file, o.range, "noSuchValue")),
            _ => {}
        }
    }
    for (file, span) in &em.includes {
        out.push(replace("undefined-include", *file, *span, "nosuch.td"));
    }
    // typed sources: at every slot outside the library of the programs that contain the conversion
    // matrix (its contexts are every kind of slot); the library ends with the definition of `gl`
    let with_matrix = ["def conv", "class convDef", "defm conv"].iter().any(|m| em.files[0].text.contains(m));
    let library_end: Option<(usize, usize)> = em.files.iter().enumerate().find_map(|(i, fo)| fo.text.find("defvar gl").map(|p| (i, p)));
    // (the fields of Src itself are slots of every program: they are faulted in the matrix programs only)
    let src_class: Option<(usize, usize, usize)> = em.files.iter().enumerate().find_map(|(i, fo)| {
        let start = fo.text.find("class Src")?;
        Some((i, start, start + fo.text[start..].find("def src")?))
    });
    let mut typed_done: std::collections::BTreeSet<String> = Default::default();
    for sl in &em.slots {
        let outside_library = match library_end {
            Some((file, pos)) => sl.file != file || sl.span.0 > pos,
            None => false,
        };
        if !with_matrix && matches!(src_class, Some((file, a, b)) if sl.file == file && a <= sl.span.0 && sl.span.0 < b) {
            continue;
        }
        // one slot of each kind and type carries the typed sources
        let typed_here = with_matrix && outside_library && typed_done.insert(format!("{} {:?}", sl.what, sl.expected));
        for v in incompatible(&sl.expected) {
            if v.starts_with("src.") && !typed_here {
                continue;
            }
            out.push(Fault { class: "type-incompatible", ..replace("type-incompatible", sl.file, sl.span, &v) });
        }
    }
    for al in &em.arg_lists {
        if al.params == 0 && al.positional == 0 && !al.has_list {
            // a class without parameters: a surplus argument
            out.push(Fault { class: "surplus-template-argument", file: al.file, span: (al.insert_at, al.insert_at), text: "<1>".into(), site: al.name_range });
            continue;
        }
        if al.named == 0 && al.positional == al.params && al.has_list && al.positional > 0 {
            out.push(Fault { class: "surplus-template-argument", file: al.file, span: (al.insert_at, al.insert_at), text: ", 1".into(), site: al.name_range });
        }
        if al.has_list && al.required > 0 && al.positional > 0 {
            // the whole argument list removed: a bare reference to a class with a parameter that has no default
            out.push(Fault { class: "missing-template-argument", file: al.file, span: (al.name_range.1, al.insert_at + 1), text: String::new(), site: al.name_range });
        }
        for t in &al.truncations {
            // the list cut down to its first k arguments: a parameter without default (also one declared after a
            // parameter that has one) is left without value
            out.push(Fault { class: "missing-template-argument", file: al.file, span: *t, text: String::new(), site: al.name_range });
        }
        if let (Some(last), true) = (al.last_arg, al.named == 0 && al.positional > 0 && al.positional <= al.required) {
            // removing the last positional argument leaves a parameter without value
            let text = if al.positional == 1 { "<" } else { "" };
            out.push(Fault { class: "missing-template-argument", file: al.file, span: last, text: text.into(), site: al.name_range });
        }
    }
    for bc in &em.bang_calls {
        let (min, max) = arity(&bc.op);
        if let Some(last) = bc.last_arg {
            if bc.nargs > 0 && bc.nargs - 1 < min && bc.nargs > 1 {
                out.push(Fault { class: "operator-arity", file: bc.file, span: last, text: String::new(), site: (bc.span.0, bc.span.0 + bc.op.len()) });
            }
        }
        if bc.nargs + 1 > max {
            out.push(Fault { class: "operator-arity", file: bc.file, span: (bc.close, bc.close), text: ", 1".into(), site: (bc.span.0, bc.span.0 + bc.op.len()) });
        }
    }
    for (file, at) in &em.semis {
        // a deleted terminator: the error is expected at or right after the gap
        out.push(Fault { class: "syntax-missing-semicolon", file: *file, span: (*at, at + 1), text: String::new(), site: (*at, *at) });
        out.push(Fault { class: "syntax-stray-token", file: *file, span: (at + 1, at + 1), text: " )".into(), site: (at + 2, at + 3) });
    }
    out
}

/// The emitted files with one fault applied.
pub fn apply(em: &Emitted, fault: &Fault) -> Vec<(String, String)> {
    em.files
        .iter()
        .enumerate()
        .map(|(i, f)| {
            let text = if i == fault.file { format!("{}{}{}", &f.text[..fault.span.0], fault.text, &f.text[fault.span.1..]) } else { f.text.clone() };
            (f.name.clone(), text)
        })
        .collect()
}
