//! C13 — diagnostics are sound and complete on the supported core language.

use tgv_core::{guard, guard_on_stack, json, Ctx, Engine, Failure, Tier, Value};

use crate::c03::STACK;
use crate::c05::{program_of, shrink_program, DIR};
use crate::pm::{emit, Emitted, Program};
use crate::typed::{apply, faults, valid_programs, Fault};
use crate::ws::Ws;

pub struct C13;

type Diags = Vec<(String, (usize, usize), String)>;

fn diagnostics(files: &[(String, String)]) -> Diags {
    let abs: Vec<(String, String)> = files.iter().map(|(n, t)| (format!("{DIR}/{n}"), t.clone())).collect();
    let ws = Ws::new(&abs, &abs[0].0);
    let mut out = Vec::new();
    for (f, list) in ws.analysis().diagnostics() {
        let name = ws.fs.path_of(f).trim_start_matches(&format!("{DIR}/")).to_string();
        for d in list {
            out.push((name.clone(), (usize::from(d.location.range.start()), usize::from(d.location.range.end())), d.message));
        }
    }
    out.sort();
    out
}

fn line_at(text: &str, at: usize) -> String {
    let at = at.min(text.len());
    let ls = text[..at].rfind('\n').map(|i| i + 1).unwrap_or(0);
    let le = text[at..].find('\n').map(|i| at + i).unwrap_or(text.len());
    text[ls..le].trim().to_string()
}

pub fn check_valid(em: &Emitted) -> Vec<(String, String, String)> {
    let files: Vec<(String, String)> = em.files.iter().map(|f| (f.name.clone(), f.text.clone())).collect();
    let d = diagnostics(&files);
    d.into_iter()
        .take(3)
        .map(|(file, r, msg)| {
            let text = &em.files.iter().find(|f| f.name == file).map(|f| f.text.clone()).unwrap_or_default();
            // group by message shape so that distinct defects stay distinct
            let shape: String = msg.chars().map(|c| if c.is_ascii_digit() { '#' } else { c }).take(48).collect();
            (format!("spurious-diagnostic: {shape}"), line_at(text, r.0), format!("well-formed program, but {file}:{}..{} reports {msg:?}", r.0, r.1))
        })
        .collect()
}

pub fn check_fault(em: &Emitted, fault: &Fault) -> Vec<(String, String, String)> {
    let files = apply(em, fault);
    let d = diagnostics(&files);
    let seeded = &files[fault.file];
    let mut out = Vec::new();
    // the site, widened for zero-width sites to the first token after the gap
    let (s, mut e) = fault.site;
    if s == e {
        let rest = &seeded.1[s..];
        let skip = rest.len() - rest.trim_start().len();
        let tok = rest[skip..].find(|c: char| c.is_whitespace()).unwrap_or(rest.len() - skip);
        e = s + skip + tok.max(1);
    }
    let covered = d.iter().any(|(f, r, _)| {
        *f == seeded.0 && if fault.site.0 == fault.site.1 { r.0 < e && r.1 >= s } else { r.0 <= s && e <= r.1 }
    });
    if !covered {
        let in_file: Vec<String> = d.iter().filter(|(f, _, _)| *f == seeded.0).map(|(_, r, m)| format!("{}..{} {m}", r.0, r.1)).collect();
        out.push((
            format!("fault-not-reported: {}", fault.class),
            format!("{}: `{}`", fault.class, line_at(&seeded.1, s)),
            format!("seeded {} at {}:{s}..{e}; no diagnostic covers it; diagnostics in that file: {in_file:?}", fault.class, seeded.0),
        ));
    }
    if fault.file == 0 {
        if let Some((f, r, m)) = d.iter().find(|(f, _, _)| *f != seeded.0) {
            out.push((
                "diagnostic-in-untouched-file".to_string(),
                format!("{}: `{}`", fault.class, line_at(&seeded.1, s)),
                format!("the fault is in {} but {f}:{}..{} reports {m:?}", seeded.0, r.0, r.1),
            ));
        }
    }
    out
}

fn eval(p: &Program, fault_index: Option<usize>, trivia: bool) -> (Vec<Failure>, usize) {
    let em = crate::pm::emit_with(p, trivia);
    let fs = faults(&em);
    let case = json!({ "program": p, "fault_index": fault_index, "trivia": trivia });
    let r = guard(|| match fault_index {
        None => check_valid(&em),
        Some(i) => fs.get(i).map(|f| check_fault(&em, f)).unwrap_or_default(),
    });
    let fails = match r {
        Ok(v) => v.into_iter().map(|(c, w, d)| Failure::new(&c, w, d, case.clone())).collect(),
        Err(pn) => vec![Failure::new("crash", format!("fault {fault_index:?}"), format!("{} at {}", pn.message, pn.location), case)],
    };
    (fails, fs.len())
}

impl Engine for C13 {
    fn id(&self) -> &'static str {
        "C13"
    }

    fn rule(&self, tier: Tier) -> String {
        format!(
            "well-typed programs = a fixed library (class with defaults and a field of every type, multiclass, defs, global variables) + every single feature group{} + all {} groups together (groups: inheritance with overrides, defaults, record-typed parameters and subclass casts, defm, multiclass inheritance, foreach, if, defset, group let, class values, field access and slices, one call of each of the operator forms of DESIGN Appendix D, assert/dump, typed defvars, literals), single groups also inside foreach / let / if wrappers, one-file, two-file, diamond (the library included directly and again through a third file) and chain (root -> mid -> library; single groups) layouts; six groups hold every convertible pair of the 15-type conversion matrix in one kind of slot each, where one slot of every (kind, type) also receives every declared-type value that does not convert; each must have no diagnostics, printed plainly and with a comment after every identifier. \
             Then EVERY single fault at EVERY recorded site: undefined class / multiclass / identifier / include, missing or surplus template argument, a value of each incompatible base type in every field initialiser, override and template argument, one argument removed from or added to every operator call whose arity that violates, a deleted ';' and a stray ')' after every statement. \
             non-trivial = every case; distinct by construction.",
            tier.pick("", " and every ordered pair"),
            crate::typed::features().len()
        )
    }

    fn assumptions(&self) -> Vec<String> {
        vec![
            "valid = well typed by construction against the Programmer's Reference; operand-type faults of operators and undeclared let targets are not in the property's list and are not seeded".into(),
            "a diagnostic covers a site when its range contains it; for a deleted ';' it must overlap the gap up to the end of the next token".into(),
            "'no diagnostics in untouched files' is judged for faults seeded in the root file (the included library does not depend on it)".into(),
        ]
    }

    fn trace_always(&self) -> bool {
        true
    }

    fn explore(&self, tier: Tier, ctx: &mut Ctx) {
        let r = guard_on_stack(STACK, || {
            valid_programs(tier == Tier::Thorough, |p, tag| {
                // every worker walks every program; the cases (two valid renderings, then one per fault) are dealt out singly
                let em = crate::pm::emit_with(p, false);
                let fs = faults(&em);
                let to_failures = |r: Result<Vec<(String, String, String)>, tgv_core::guard::PanicInfo>, case: Value, what: String| -> Vec<Failure> {
                    match r {
                        Ok(v) => v.into_iter().map(|(c, w, d)| Failure::new(&c, w, d, case.clone())).collect(),
                        Err(pn) => vec![Failure::new("crash", what, format!("{} at {}", pn.message, pn.location), case)],
                    }
                };
                if ctx.mine() {
                    ctx.trace(|| json!({ "program": p, "fault_index": null, "witness": tag }));
                    if tier == Tier::Thorough {
                        if let Some(msg) = audit_with_llvm_tblgen(p, tag) {
                            ctx.machinery_error(msg);
                        }
                        ctx.add("audited_with_llvm_tblgen", 1);
                    }
                    let fails = to_failures(guard(|| check_valid(&em)), json!({ "program": p, "fault_index": null, "trivia": false }), format!("valid {tag}"));
                    ctx.case(true);
                    ctx.add("valid_programs", 1);
                    ctx.sample(|| json!({ "valid": tag, "fault_sites": fs.len() }));
                    for f in fails {
                        ctx.fail(f);
                    }
                }
                if ctx.mine() {
                    // the same program with a comment after every identifier is as valid
                    ctx.trace(|| json!({ "program": p, "fault_index": null, "trivia": true, "witness": tag }));
                    let em_t = crate::pm::emit_with(p, true);
                    let fails = to_failures(guard(|| check_valid(&em_t)), json!({ "program": p, "fault_index": null, "trivia": true }), format!("valid {tag} (trivia)"));
                    ctx.case(true);
                    ctx.add("valid_programs", 1);
                    for f in fails {
                        ctx.fail(f);
                    }
                }
                for (i, fault) in fs.iter().enumerate() {
                    if !ctx.mine() {
                        continue;
                    }
                    ctx.trace(|| json!({ "program": p, "fault_index": i, "witness": format!("{tag} fault {i}") }));
                    if tier == Tier::Thorough && fault.text.starts_with("src.") {
                        if let Some(msg) = audit_fault_with_llvm_tblgen(&em, fault, tag) {
                            ctx.machinery_error(msg);
                        }
                        ctx.add("typed_faults_audited_with_llvm_tblgen", 1);
                    }
                    let fails = to_failures(guard(|| check_fault(&em, fault)), json!({ "program": p, "fault_index": i, "trivia": false }), format!("fault {i}"));
                    ctx.case(true);
                    ctx.add("faults_seeded", 1);
                    for f in fails {
                        ctx.fail(f);
                    }
                    if ctx.expired() {
                        return false;
                    }
                }
                !ctx.expired()
            });
        });
        if let Err(p) = r {
            panic!("harness panic: {} at {}", p.message, p.location);
        }
    }

    fn eval_case(&self, case: &Value) -> Vec<Failure> {
        let Some(p) = program_of(case) else { return vec![] };
        let idx = case["fault_index"].as_u64().map(|x| x as usize);
        let trivia = case["trivia"].as_bool().unwrap_or(false);
        guard_on_stack(STACK, || eval(&p, idx, trivia).0).unwrap_or_default()
    }

    fn shrink(&self, case: &Value, _clause: &str) -> Vec<Value> {
        // only spurious diagnostics on valid programs are shrunk (fault indices do not survive deletions)
        if !case["fault_index"].is_null() {
            return vec![];
        }
        let Some(p) = program_of(case) else { return vec![] };
        let trivia = case["trivia"].as_bool().unwrap_or(false);
        shrink_program(&p)
            .into_iter()
            .filter(|q| emit(q).occs.iter().all(|o| o.target.is_some() || !o.judged))
            .map(|q| json!({ "program": q, "fault_index": null, "trivia": trivia }))
            .collect()
    }
}

/// Audit of the conversion relation, never a verdict: a one-file matrix program in which a slot receives a
/// declared-type value the reference calls inconvertible must be rejected by llvm-tblgen 14.
fn audit_fault_with_llvm_tblgen(em: &Emitted, fault: &Fault, tag: &str) -> Option<String> {
    if em.files.len() != 1 || !fault.text.starts_with("src.") {
        return None;
    }
    let exe = ["/usr/bin/llvm-tblgen-14", "/usr/bin/llvm-tblgen"].into_iter().find(|e| std::path::Path::new(e).exists())?;
    let faulty = apply(em, fault);
    let text: String = faulty[0].1.lines().filter(|l| !NEWER.iter().any(|n| l.contains(n))).map(|l| format!("{l}\n")).collect();
    let dir = tgv_core::runner::root().join(".work").join("C13").join(format!("audit{}", std::process::id()));
    std::fs::create_dir_all(&dir).ok()?;
    let path = dir.join("f.td");
    std::fs::write(&path, &text).ok()?;
    let out = std::process::Command::new(exe).arg(&path).output().ok()?;
    let _ = std::fs::remove_dir_all(&dir);
    if out.status.success() {
        let at = fault.span.0;
        let line = faulty[0].1[..at].rfind('\n').map(|i| i + 1).unwrap_or(0);
        Some(format!("llvm-tblgen accepts what the reference calls a type-incompatible value in `{tag}`: `{}`", faulty[0].1[line..].lines().next().unwrap_or_default()))
    } else {
        None
    }
}

const NEWER: &[&str] = &[
    "dump ", "!div", "!logtwo", "!listflatten", "!repr", "!range", "!tolower", "!toupper", "!getdagarg", "!getdagname", "!setdagarg", "!setdagname", "!listremove", "!exists", "!initialized",
];

/// Audit of the generator, never a verdict: the part of a valid one-file program that
/// llvm-tblgen 14 can express (no `dump`, no operator newer than LLVM 14) must be accepted by it.
fn audit_with_llvm_tblgen(p: &Program, tag: &str) -> Option<String> {
    if p.files.len() != 1 {
        return None;
    }
    let exe = ["/usr/bin/llvm-tblgen-14", "/usr/bin/llvm-tblgen"].into_iter().find(|e| std::path::Path::new(e).exists())?;
    let em = emit(p);
    let text: String = em.files[0].text.lines().filter(|l| !NEWER.iter().any(|n| l.contains(n))).map(|l| format!("{l}\n")).collect();
    let dir = tgv_core::runner::root().join(".work").join("C13").join(format!("audit{}", std::process::id()));
    std::fs::create_dir_all(&dir).ok()?;
    let path = dir.join("a.td");
    std::fs::write(&path, &text).ok()?;
    let out = std::process::Command::new(exe).arg(&path).output().ok()?;
    let _ = std::fs::remove_dir_all(&dir);
    if out.status.success() {
        None
    } else {
        let err = String::from_utf8_lossy(&out.stderr);
        Some(format!("llvm-tblgen rejects the LLVM-14 subset of the valid program `{tag}`: {}", err.lines().take(3).collect::<Vec<_>>().join(" | ")))
    }
}
