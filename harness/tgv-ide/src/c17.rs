//! C17 — range validity of every analysis result (oracle-free).

use std::collections::{HashMap, HashSet};

use ide::analysis::Analysis;
use ide::file_system::{FileId, FilePosition, FileRange};
use ide::handlers::diagnostics::Diagnostic;
use ide::handlers::document_link::DocumentLink;
use ide::handlers::document_symbol::DocumentSymbol;
use ide::handlers::folding_range::FoldingRange;
use ide::handlers::inlay_hint::InlayHint;
use syntax::parser::TextRange;
use tgv_core::{guard, guard_on_stack, json, Ctx, Engine, Failure, Tier, Value};

use crate::c03::{plan_for, truncate, STACK};
use crate::queries::{run_all, Cursor, Obs, Plan};
use crate::ws::Ws;
use crate::wspace::{for_each_workspace, WsCase};

pub struct C17;

#[derive(Default)]
pub struct Ranges {
    workspace: HashSet<FileId>,
    pub problems: Vec<(&'static str, String)>,
    pub checked: u64,
    pub non_ascii: bool,
}

impl Ranges {
    fn problem(&mut self, clause: &'static str, msg: String) {
        if self.problems.len() < 4 {
            self.problems.push((clause, msg));
        }
    }

    fn check(&mut self, ws: &Ws, what: &'static str, file: FileId, r: TextRange) {
        self.checked += 1;
        let (s, e) = (usize::from(r.start()), usize::from(r.end()));
        if !self.workspace.contains(&file) {
            self.problem(what, format!("{what}: {}:{s}..{e} names a file that is not part of the workspace", ws.fs.path_of(file)));
            return;
        }
        let Some(text) = ws.text_of(file) else {
            self.problem(what, format!("{what}: file {} has no text", ws.fs.path_of(file)));
            return;
        };
        if s > e || e > text.len() {
            self.problem(what, format!("{what}: {}:{s}..{e} is outside the text of {} bytes", ws.fs.path_of(file), text.len()));
        } else if !text.is_char_boundary(s) || !text.is_char_boundary(e) {
            self.problem(what, format!("{what}: {}:{s}..{e} is not on UTF-8 character boundaries", ws.fs.path_of(file)));
        }
    }

    fn symbol(&mut self, ws: &Ws, file: FileId, s: &DocumentSymbol) {
        self.check(ws, "document-symbol", file, s.range);
        for c in &s.children {
            self.symbol(ws, file, c);
        }
    }
}

impl Obs for Ranges {
    fn diagnostics(&mut self, ws: &Ws, d: &HashMap<FileId, Vec<Diagnostic>>) {
        self.workspace = d.keys().copied().collect();
        for (f, list) in d {
            for x in list {
                if x.location.file != *f {
                    self.problem("diagnostic", format!("diagnostic {:?} filed under {} but located in {}", x.message, ws.fs.path_of(*f), ws.fs.path_of(x.location.file)));
                }
                self.check(ws, "diagnostic", x.location.file, x.location.range);
            }
        }
    }
    fn symbols(&mut self, ws: &Ws, file: FileId, r: &Option<Vec<DocumentSymbol>>) {
        for s in r.iter().flatten() {
            self.symbol(ws, file, s);
        }
    }
    fn folding(&mut self, ws: &Ws, file: FileId, r: &Option<Vec<FoldingRange>>) {
        for x in r.iter().flatten() {
            self.check(ws, "folding-range", file, x.range);
        }
    }
    fn links(&mut self, ws: &Ws, file: FileId, r: &Option<Vec<DocumentLink>>) {
        for x in r.iter().flatten() {
            self.check(ws, "document-link", file, x.range);
            if !self.workspace.contains(&x.target) {
                self.problem("document-link", format!("link target {} is not part of the workspace", ws.fs.path_of(x.target)));
            }
        }
    }
    fn goto(&mut self, ws: &Ws, _a: &Analysis, _pos: FilePosition, r: &Option<FileRange>) {
        if let Some(x) = r {
            self.check(ws, "definition", x.file, x.range);
        }
    }
    fn refs(&mut self, ws: &Ws, _a: &Analysis, _pos: FilePosition, r: &Option<Vec<FileRange>>) {
        for x in r.iter().flatten() {
            self.check(ws, "reference", x.file, x.range);
        }
    }
    fn hints(&mut self, ws: &Ws, range: FileRange, r: &Option<Vec<InlayHint>>) {
        for x in r.iter().flatten() {
            self.check(ws, "inlay-hint", range.file, TextRange::empty(x.position));
        }
    }
}

pub fn eval_ws(case: &WsCase, plan: Plan) -> (Vec<Failure>, u64) {
    let mut cur = Cursor::default();
    let mut obs = Ranges::default();
    let r = guard(|| {
        let ws = Ws::new(&case.files, &case.root);
        let a = ws.analysis();
        run_all(&ws, &a, &mut obs, &mut cur, plan);
    });
    let mut out: Vec<Failure> = obs
        .problems
        .iter()
        .map(|(c, d)| Failure::new(c, case.witness(), d.clone(), case.to_json()))
        .collect();
    if let Err(p) = r {
        out.push(Failure::new("crash", case.witness(), format!("{} at {} during {}", p.message, p.location, cur.describe()), case.to_json()));
    }
    (out, obs.checked)
}

impl Engine for C17 {
    fn id(&self) -> &'static str {
        "C17"
    }

    fn rule(&self, tier: Tier) -> String {
        format!(
            "the C03 workspace space incl. CRLF and non-ASCII (2-, 3-, 4-byte) injections in comments, strings and between tokens ({}); every range of every result \
             (diagnostics, symbols and children, folding, links and their targets, hint positions, definitions, references) must name a workspace file (a key of diagnostics()) \
             and satisfy start <= end <= len on UTF-8 boundaries of that file's current text. non-trivial = workspaces whose results contain at least one range; distinct by construction.",
            tier.pick("quick plan as in C06", "every offset")
        )
    }

    fn trace_always(&self) -> bool {
        true
    }

    fn explore(&self, tier: Tier, ctx: &mut Ctx) {
        let r = guard_on_stack(STACK, || {
            for_each_workspace(tier, ctx, |ctx, case| {
                ctx.trace(|| case.to_json());
                let (fails, checked) = eval_ws(case, plan_for(case, tier));
                ctx.case(checked > 0);
                ctx.add("ranges_checked", checked);
                ctx.add(case.stratum, 1);
                if checked > 0 {
                    ctx.sample(|| json!({ "stratum": case.stratum, "workspace": truncate(&case.witness(), 200), "ranges_checked": checked }));
                }
                for f in fails {
                    ctx.fail(f);
                }
                !ctx.expired()
            });
        });
        if let Err(p) = r {
            panic!("harness panic: {} at {}", p.message, p.location);
        }
    }

    fn eval_case(&self, case: &Value) -> Vec<Failure> {
        let case = WsCase::from_json(case);
        guard_on_stack(STACK, || eval_ws(&case, plan_for(&case, Tier::Quick)).0).unwrap_or_default()
    }

    fn shrink(&self, case: &Value, _clause: &str) -> Vec<Value> {
        WsCase::from_json(case).shrink().into_iter().map(|c| c.to_json()).collect()
    }
}
