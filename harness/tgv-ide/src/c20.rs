//! C20 — completion vocabulary is closed under the server's own lexer and parser.

use std::collections::{BTreeMap, BTreeSet};

use ide::file_system::FilePosition;
use ide::handlers::completion::{CompletionItem, CompletionItemKind};
use syntax::ast::{self, AstNode};
use syntax::lexer::Lexer;
use syntax::parser::TextSize;
use syntax::token_kind::TokenKind;
use syntax::token_stream::TokenStream;
use tgv_core::{guard, guard_on_stack, json, Ctx, Engine, Failure, Tier, Value};
use tgv_syntax::space;

use crate::c03::STACK;
use crate::ws::Ws;
use crate::wspace::{stress_menu, WsCase};

pub struct C20;

/// Lexes `text` with the real lexer; Some(kind) iff it is exactly one token spanning the text.
fn single_token(text: &str) -> Option<TokenKind> {
    let mut l = Lexer::new(text);
    let k = l.eat();
    if l.cursor() != text.len() {
        return None;
    }
    if l.eat() != TokenKind::Eof {
        return None;
    }
    Some(k)
}

fn is_operator(k: TokenKind) -> bool {
    k.is_bang_operator() || k.is_cond_operator()
}

fn complete(text: &str, offset: usize, bang: bool) -> Vec<CompletionItem> {
    let ws = Ws::single(text);
    let a = ws.analysis();
    a.completion(FilePosition::new(ws.root, TextSize::from(offset as u32)), bang.then(|| "!".to_string()))
        .unwrap_or_default()
}

fn labels(items: &[CompletionItem], kind: CompletionItemKind) -> Vec<String> {
    items.iter().filter(|i| i.kind == kind).map(|i| i.label.clone()).collect()
}

/// Multiset difference of labels: what the `!` trigger adds at the same position.
fn bang_labels() -> Vec<String> {
    let text = "defvar a = !";
    let with = complete(text, text.len(), true);
    let without = complete(text, text.len(), false);
    let mut counts: BTreeMap<String, i64> = BTreeMap::new();
    for i in &with {
        *counts.entry(i.label.clone()).or_insert(0) += 1;
    }
    for i in &without {
        *counts.entry(i.label.clone()).or_insert(0) -= 1;
    }
    let mut out = Vec::new();
    for (l, c) in counts {
        for _ in 0..c.max(0) {
            out.push(l.clone());
        }
    }
    out
}

const STATEMENT_FORMS: &[(&str, &str)] = &[
    ("assert", "assert 1, \"m\";"),
    ("class", "class A;"),
    ("def", "def d;"),
    ("dump", "dump 1;"),
    ("foreach", "foreach i = [1] in def d;"),
    ("defm", "defm d : M;"),
    ("defset", "defset list<A> s = { }"),
    ("defvar", "defvar a = 1;"),
    ("if", "if 1 then def d;"),
    ("include", "include \"f.td\""),
    ("let", "let a = 1 in def d;"),
    ("multiclass", "multiclass M { def d; }"),
];

const STATEMENT_KINDS: &[TokenKind] = &[
    TokenKind::Assert, TokenKind::Class, TokenKind::Def, TokenKind::Dump, TokenKind::Foreach, TokenKind::Defm,
    TokenKind::Defset, TokenKind::Defvar, TokenKind::If, TokenKind::Include, TokenKind::Let, TokenKind::MultiClass,
];

const TYPE_KINDS: &[TokenKind] = &[
    TokenKind::Bit, TokenKind::Code, TokenKind::Dag, TokenKind::Int, TokenKind::String, TokenKind::Bits, TokenKind::List,
];

#[derive(Debug, Clone)]
enum Case {
    /// a label offered in a category
    Offered { category: &'static str, label: String },
    /// a word to probe the lexer's operator table with
    Probe { word: String },
    /// class completion in a workspace
    Classes { ws: WsCase },
}

fn vocab_failures(category: &str, label: &str) -> Vec<(String, String)> {
    let mut out = Vec::new();
    match category {
        "operator" => {
            let text = format!("!{label}");
            match single_token(&text) {
                Some(k) if is_operator(k) => {}
                other => out.push((
                    "offered-operator-not-lexed".to_string(),
                    format!("`{text}` is offered after '!' but the lexer gives {other:?} (not one operator token)"),
                )),
            }
        }
        "type" => match single_token(label) {
            Some(k) if TYPE_KINDS.contains(&k) => {}
            other => out.push(("offered-type-not-lexed".to_string(), format!("type `{label}` lexes as {other:?}"))),
        },
        "value" => match single_token(label) {
            Some(TokenKind::TrueVal) | Some(TokenKind::FalseVal) => {}
            other => out.push(("offered-value-not-lexed".to_string(), format!("value keyword `{label}` lexes as {other:?}"))),
        },
        "statement" => {
            match single_token(label) {
                Some(k) if STATEMENT_KINDS.contains(&k) => {}
                other => out.push(("offered-keyword-not-lexed".to_string(), format!("statement keyword `{label}` lexes as {other:?}"))),
            }
            // dispatched to a statement: no fallback error at the keyword
            let p = syntax::parse(label);
            if p.errors().iter().any(|e| usize::from(e.range.start()) == 0 && e.message.starts_with("expected class, def")) {
                out.push((
                    "offered-keyword-not-a-statement".to_string(),
                    format!("`{label}` offered at file level is not dispatched to a statement: {:?}", p.errors().first().map(|e| &e.message)),
                ));
            }
            if let Some((_, form)) = STATEMENT_FORMS.iter().find(|(k, _)| k == &label) {
                let p = syntax::parse(form);
                if !p.errors().is_empty() {
                    out.push((
                        "statement-form-rejected".to_string(),
                        format!("minimal `{label}` statement `{form}` has syntax errors: {:?}", p.errors()),
                    ));
                }
            }
        }
        _ => {}
    }
    out
}

/// Reference class table from independent parses: name -> number of template
/// parameters of the last declaration in index order (includes expanded in place, each file once).
fn reference_classes(ws: &WsCase) -> BTreeMap<String, usize> {
    fn walk(ws: &WsCase, path: &str, seen: &mut BTreeSet<String>, out: &mut BTreeMap<String, usize>, defined: &mut BTreeSet<String>) {
        if !seen.insert(path.to_string()) {
            return;
        }
        let Some((_, text)) = ws.files.iter().find(|(p, _)| p == path) else { return };
        // what is a class of the workspace is decided by the reference reading of the conditionals, not by
        // the server's preprocessor: disabled lines are blanked before the text is parsed
        let text = &without_disabled_lines(text, defined);
        let parse = syntax::parse(text);
        let Some(sf) = parse.source_file() else { return };
        let Some(list) = sf.statement_list() else { return };
        visit(ws, path, &list, seen, out, defined);
    }
    fn visit(ws: &WsCase, path: &str, list: &ast::StatementList, seen: &mut BTreeSet<String>, out: &mut BTreeMap<String, usize>, defined: &mut BTreeSet<String>) {
        for st in list.statements() {
            match st {
                ast::Statement::Include(inc) => {
                    if let Some(p) = inc.path() {
                        let dir = path.rsplit_once('/').map(|(d, _)| d).unwrap_or("");
                        let target = format!("{dir}/{}", p.value());
                        if ws.files.iter().any(|(q, _)| *q == target) {
                            walk(ws, &target, seen, out, defined);
                        }
                    }
                }
                ast::Statement::Class(c) => {
                    if let Some(name) = c.name().and_then(|n| n.value()) {
                        // parameters that have both a type and a name are the ones the indexer records
                        let n = c.template_arg_list().map(|l| l.args().filter(|a| a.name().and_then(|n| n.value()).is_some() && a.r#type().is_some()).count());
                        out.insert(name.to_string(), n.unwrap_or(0));
                    }
                }
                ast::Statement::Let(x) => {
                    if let Some(l) = x.statement_list() {
                        visit(ws, path, &l, seen, out, defined)
                    }
                }
                ast::Statement::Foreach(x) => {
                    if let Some(l) = x.body() {
                        visit(ws, path, &l, seen, out, defined)
                    }
                }
                ast::Statement::If(x) => {
                    for l in [x.then_body(), x.else_body()].into_iter().flatten() {
                        visit(ws, path, &l, seen, out, defined)
                    }
                }
                ast::Statement::Defset(x) => {
                    if let Some(l) = x.statement_list() {
                        visit(ws, path, &l, seen, out, defined)
                    }
                }
                _ => {}
            }
        }
    }
    let mut out = BTreeMap::new();
    let mut seen = BTreeSet::new();
    // (macros are per file in this reference: the menu defines and tests a macro in the same statement)
    walk(ws, &ws.root, &mut seen, &mut out, &mut BTreeSet::new());
    out
}

/// Line-based reference reading of `#define` / `#ifdef` / `#ifndef` / `#else` / `#endif` written at the start
/// of a line (the only layout the class-completion menu uses): the text with every disabled line and every
/// directive line blanked.
fn without_disabled_lines(text: &str, defined: &mut BTreeSet<String>) -> String {
    if !text.contains('#') {
        return text.to_string();
    }
    // (parent enabled, condition, in else)
    let mut stack: Vec<(bool, bool, bool)> = Vec::new();
    let mut out = String::new();
    for line in text.split_inclusive('\n') {
        let enabled = stack.last().map(|(p, c, e)| *p && (*c != *e)).unwrap_or(true);
        let body = line.trim_end();
        let mut keep = enabled;
        if let Some(name) = body.strip_prefix("#define ") {
            if enabled {
                defined.insert(name.trim().to_string());
            }
            keep = false;
        } else if let Some(name) = body.strip_prefix("#ifdef ") {
            stack.push((enabled, defined.contains(name.trim()), false));
            keep = false;
        } else if let Some(name) = body.strip_prefix("#ifndef ") {
            stack.push((enabled, !defined.contains(name.trim()), false));
            keep = false;
        } else if body == "#else" {
            if let Some(f) = stack.last_mut() {
                f.2 = true;
            }
            keep = false;
        } else if body == "#endif" {
            stack.pop();
            keep = false;
        }
        if keep {
            out.push_str(line);
        } else {
            out.extend(line.chars().map(|c| if c == '\n' { '\n' } else { ' ' }));
        }
    }
    out
}

fn snippet_for(name: &str, n: usize) -> String {
    if n == 0 {
        format!("{name}$0")
    } else {
        let args: Vec<String> = (1..=n).map(|i| format!("${{{i}}}")).collect();
        format!("{name}<{}>$0", args.join(", "))
    }
}

/// Class completion at every parent-class position of a record body of every file of the workspace.
fn class_failures(case: &WsCase) -> (Vec<(String, String)>, u64) {
    // unresolvable template-argument types drop a parameter in the indexer; only workspaces
    // where the reference table is unambiguous are judged: every parameter type is a builtin
    let expected: BTreeSet<(String, String)> = reference_classes(case).into_iter().map(|(n, k)| (n.clone(), snippet_for(&n, k))).collect();
    let ws = Ws::new(&case.files, &case.root);
    let a = ws.analysis();
    // the files of the workspace: the root and what it reaches
    let in_workspace: BTreeSet<String> = a.diagnostics().keys().map(|f| ws.fs.path_of(*f)).collect();
    let mut out = Vec::new();
    let mut checked = 0;
    for (path, text) in &case.files {
        if !in_workspace.contains(path) {
            continue;
        }
        let Some(fid) = ws.fs.lookup(path) else { continue };
        let parse = syntax::parse(text);
        // offsets inside / at the end of the parent name of class and def statements
        let mut offsets = Vec::new();
        for node in parse.syntax_node().descendants() {
            let Some(rb) = ast::RecordBody::cast(node) else { continue };
            let Some(pl) = rb.parent_class_list() else { continue };
            for cr in pl.classes() {
                if let Some(r) = cr.name().and_then(|n| n.range()) {
                    let (s, e) = (usize::from(r.start()), usize::from(r.end()));
                    for o in s + 1..=e {
                        offsets.push(o);
                    }
                }
            }
        }
        for o in offsets {
            let items = a.completion(FilePosition::new(fid, TextSize::from(o as u32)), None).unwrap_or_default();
            let got: BTreeSet<(String, String)> = items
                .iter()
                .filter(|i| i.kind == CompletionItemKind::Class)
                .map(|i| (i.label.clone(), i.insert_text_snippet.clone().unwrap_or_default()))
                .collect();
            let dup = items.iter().filter(|i| i.kind == CompletionItemKind::Class).count() != got.len();
            checked += 1;
            if got != expected || dup {
                out.push((
                    "class-completions".to_string(),
                    format!("{path} at offset {o}: offered {got:?}{}, classes of the workspace {expected:?}", if dup { " (with duplicates)" } else { "" }),
                ));
                return (out, checked);
            }
        }
    }
    (out, checked)
}

fn case_json(c: &Case) -> Value {
    match c {
        Case::Offered { category, label } => json!({ "kind": "offered", "category": category, "label": label }),
        Case::Probe { word } => json!({ "kind": "probe", "word": word }),
        Case::Classes { ws } => json!({ "kind": "classes", "ws": ws.to_json() }),
    }
}

fn witness(c: &Case) -> String {
    match c {
        Case::Offered { category, label } => format!("{category} `{label}`"),
        Case::Probe { word } => format!("!{word}"),
        Case::Classes { ws } => ws.witness(),
    }
}

fn eval(c: &Case, offered_ops: &BTreeSet<String>) -> (Vec<Failure>, bool) {
    let mut nontrivial = true;
    let r = guard(|| match c {
        Case::Offered { category, label } => vocab_failures(category, label),
        Case::Probe { word } => {
            let text = format!("!{word}");
            match single_token(&text) {
                Some(k) if is_operator(k) => {
                    if offered_ops.contains(word) {
                        vec![]
                    } else {
                        vec![("accepted-operator-not-offered".to_string(), format!("the lexer accepts `{text}` as {k:?} but it is not offered after '!'"))]
                    }
                }
                _ => vec![],
            }
        }
        Case::Classes { ws } => class_failures(ws).0,
    });
    if let Case::Probe { word } = c {
        nontrivial = single_token(&format!("!{word}")).map(is_operator).unwrap_or(false);
    }
    let fails = match r {
        Ok(v) => v.into_iter().map(|(cl, d)| Failure::new(&cl, witness(c), d, case_json(c))).collect(),
        Err(p) => vec![Failure::new("panic", witness(c), format!("{} at {}", p.message, p.location), case_json(c))],
    };
    (fails, nontrivial)
}

/// Operator names in the lexer's own table, read from its source at run time.
pub fn names_in_lexer_source() -> Vec<String> {
    let src = std::fs::read_to_string("/repo/crates/syntax/src/lexer.rs").unwrap_or_default();
    let mut out = Vec::new();
    for line in src.lines() {
        let t = line.trim();
        if let (Some(a), true) = (t.strip_prefix('"'), t.contains("=> T![!")) {
            if let Some((name, _)) = a.split_once('"') {
                out.push(name.to_string());
            }
        }
    }
    out
}

fn neighbours(name: &str) -> Vec<String> {
    let b: Vec<char> = name.chars().collect();
    let mut out = Vec::new();
    for i in 0..b.len() {
        let mut d = b.clone();
        d.remove(i);
        out.push(d.iter().collect());
        for c in 'a'..='z' {
            let mut s = b.clone();
            s[i] = c;
            out.push(s.iter().collect());
        }
        for c in '0'..='9' {
            let mut s = b.clone();
            s[i] = c;
            out.push(s.iter().collect());
        }
    }
    for i in 0..=b.len() {
        for c in ('a'..='z').chain('0'..='9') {
            let mut s = b.clone();
            s.insert(i, c);
            out.push(s.iter().collect());
        }
    }
    out
}

impl Engine for C20 {
    fn id(&self) -> &'static str {
        "C20"
    }

    fn rule(&self, tier: Tier) -> String {
        format!(
            "every label the server offers at file level, in a type position, in a value position and after '!' (obtained from the real completion handler; the '!' additions as the multiset difference with/without trigger); \
             lexer probes: every lowercase word of length <= {}, every single-edit neighbour (deletion, substitution, insertion over [a-z0-9]) of every offered or source-listed operator name, and the names in lexer.rs's operator arms; \
             class completion at every offset of every parent-class name of every class/def of every file (root and included) of every workspace over the stress menu extended by 16 classes whose parameter defaults have no computable type (!cond, undefined name, class name as a value, bit range of an integer, unresolved field access) and 8 classes with parameters of every type form (bits<64>, bits<65>, bits<96>, list<bits<128>>, list<list<string>>, dag, code, bit) and 8 statements with classes in enabled and disabled conditional regions (one behind a nested #else) (<= {} statements, one- and two-file) and every seed. \
             non-trivial = offered labels, probes the lexer accepts as operators, workspaces with a parent-class position.",
            tier.pick(4, 5),
            tier.pick(2, 3)
        )
    }

    fn assumptions(&self) -> Vec<String> {
        vec![
            "reference class table = names of class statements of the root and of resolvable includes expanded in place, each file once, the last declaration of a name giving the parameter count".into(),
            "the operator list offered by the server is pinned by the repository's completion snapshot test, so deviations of that list are recorded as known findings rather than repaired".into(),
        ]
    }

    fn explore(&self, tier: Tier, ctx: &mut Ctx) {
        let r = guard_on_stack(STACK, || {
            let offered_ops_vec = bang_labels();
            let offered_ops: BTreeSet<String> = offered_ops_vec.iter().cloned().collect();
            let mut run = |ctx: &mut Ctx, c: Case| -> bool {
                if !ctx.mine() {
                    return true;
                }
                ctx.trace(|| case_json(&c));
                let (fails, nontrivial) = eval(&c, &offered_ops);
                ctx.case(nontrivial);
                if nontrivial {
                    ctx.sample(|| json!(witness(&c)));
                }
                for f in fails {
                    ctx.fail(f);
                }
                !ctx.expired()
            };
            // 1. offered vocabularies
            let file_level = labels(&complete("c", 1, false), CompletionItemKind::Keyword);
            let types = labels(&complete("class Foo<i", 11, false), CompletionItemKind::Type);
            let values = labels(&complete("class Foo<int a = t", 19, false), CompletionItemKind::Keyword);
            if file_level.is_empty() || types.is_empty() || values.is_empty() || offered_ops_vec.is_empty() {
                ctx.fail(Failure::new(
                    "vocabulary-missing",
                    "completion probes",
                    format!("a vocabulary is empty: file level {file_level:?}, types {types:?}, values {values:?}, operators {offered_ops_vec:?}"),
                    json!({ "kind": "none" }),
                ));
            }
            ctx.add("offered_statement_keywords", if ctx.shard == 0 { file_level.len() as u64 } else { 0 });
            ctx.add("offered_types", if ctx.shard == 0 { types.len() as u64 } else { 0 });
            ctx.add("offered_operators", if ctx.shard == 0 { offered_ops_vec.len() as u64 } else { 0 });
            for (cat, list) in [("statement", &file_level), ("type", &types), ("value", &values), ("operator", &offered_ops_vec)] {
                for l in list {
                    if !run(ctx, Case::Offered { category: cat, label: l.clone() }) {
                        return;
                    }
                }
            }
            // 2. lexer probes
            let mut names: BTreeSet<String> = offered_ops.clone();
            names.extend(names_in_lexer_source());
            for n in &names {
                if !run(ctx, Case::Probe { word: n.clone() }) {
                    return;
                }
                for w in neighbours(n) {
                    if !run(ctx, Case::Probe { word: w }) {
                        return;
                    }
                }
            }
            let letters: Vec<String> = ('a'..='z').map(|c| c.to_string()).collect();
            let letters_ref: Vec<&str> = letters.iter().map(|s| s.as_str()).collect();
            let mut word = String::new();
            let mut stop = false;
            tgv_core::words::for_each_word(26, tier.pick(4, 5), ctx.shard, ctx.nshards, |_, w| {
                space::join(&letters_ref, w, "", &mut word);
                let c = Case::Probe { word: word.clone() };
                let (fails, nontrivial) = eval(&c, &offered_ops);
                ctx.case(nontrivial);
                for f in fails {
                    ctx.fail(f);
                }
                if ctx.expired() {
                    stop = true;
                }
                !stop
            });
            if stop {
                return;
            }
            // 3. class completion: the stress menu plus classes whose parameter defaults have no
            // computable type (a parameter stays a parameter whatever its default looks like)
            let mut menu = stress_menu();
            for t in [
                "class X<int a = !cond(true: 1), int b = 2> : Y;",
                "class X<int a = undefinedName, string b = \"s\"> : Y;",
                "class X<int a = Y, int b = a> : Y;",
                "class X<int a = 5{0}, int b = later.f> : Y;",
                // every type form is a parameter type: bit strings wider than a machine word, nested lists, dag, code
                "class X<bits<96> a, int b, list<bits<128>> c> : Y;",
                "class X<bits<64> a, bits<65> b = 0, dag c, code d, list<list<string>> e, bit g> : Y;",
                // classes in text the conditionals disable are no classes of the workspace (also behind a nested #else)
                "#ifdef NEVER\n#ifdef NEVER2\nclass X<int a>;\n#else\nclass X<int a, int b>;\n#endif\nclass Y<int a, int b, int c>;\n#endif\ndef dX : Y;",
                "#define ON\n#ifdef ON\nclass X<int a, int b> : Y;\n#else\nclass X;\n#endif\ndef eX : X<1, 2>;",
            ] {
                for x in ["A", "B"] {
                    for y in ["A", "B"] {
                        let st = t.replace('X', "\u{1}").replace('Y', y).replace('\u{1}', x);
                        if !menu.contains(&st) {
                            menu.push(st);
                        }
                    }
                }
            }
            let m = menu.len() as u64;
            let mut w = Vec::new();
            let total = tgv_core::words::count_upto(m, tier.pick(2, 3));
            for idx in 0..total {
                tgv_core::words::decode(idx, m, tier.pick(2, 3), &mut w);
                let text = w.iter().map(|&i| menu[i].as_str()).collect::<Vec<_>>().join("\n");
                if !run(ctx, Case::Classes { ws: WsCase::single(&text, "stress") }) {
                    return;
                }
                if w.len() <= 2 {
                    for b in [0usize, 2, 9] {
                        let root = format!("include \"b.td\"\n{text}");
                        let case = WsCase {
                            files: vec![("/ws/a.td".into(), root), ("/ws/b.td".into(), menu[b % menu.len()].clone())],
                            root: "/ws/a.td".into(),
                            stratum: "stress2",
                            focus: None,
                        };
                        if !run(ctx, Case::Classes { ws: case }) {
                            return;
                        }
                    }
                }
            }
            let files = space::files();
            for (name, text) in &files.seeds {
                if !run(ctx, Case::Classes { ws: crate::wspace::seed_workspace(&files, name, text, "seed") }) {
                    return;
                }
            }
        });
        if let Err(p) = r {
            panic!("harness panic: {} at {}", p.message, p.location);
        }
    }

    fn eval_case(&self, case: &Value) -> Vec<Failure> {
        let c = match case["kind"].as_str() {
            Some("offered") => {
                let category = match case["category"].as_str() {
                    Some("statement") => "statement",
                    Some("type") => "type",
                    Some("value") => "value",
                    _ => "operator",
                };
                Case::Offered { category, label: case["label"].as_str().unwrap_or_default().to_string() }
            }
            Some("probe") => Case::Probe { word: case["word"].as_str().unwrap_or_default().to_string() },
            Some("classes") => Case::Classes { ws: WsCase::from_json(&case["ws"]) },
            _ => return vec![],
        };
        guard_on_stack(STACK, || {
            let offered: BTreeSet<String> = bang_labels().into_iter().collect();
            // an offered label that is no longer offered cannot be a violation of the offered clauses
            if let Case::Offered { category: "operator", label } = &c {
                if !offered.contains(label) {
                    return vec![];
                }
            }
            eval(&c, &offered).0
        })
        .unwrap_or_default()
    }

    fn shrink(&self, case: &Value, _clause: &str) -> Vec<Value> {
        if case["kind"].as_str() == Some("classes") {
            WsCase::from_json(&case["ws"]).shrink().into_iter().map(|w| json!({ "kind": "classes", "ws": w.to_json() })).collect()
        } else {
            vec![]
        }
    }
}
