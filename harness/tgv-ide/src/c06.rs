//! C06 — definition/reference coherence on arbitrary input (oracle-free).

use std::collections::HashMap;

use ide::analysis::Analysis;
use ide::file_system::{FileId, FilePosition, FileRange};
use syntax::syntax_kind::SyntaxKind;
use tgv_core::{guard, guard_on_stack, json, Ctx, Engine, Failure, Tier, Value};

use crate::c03::{plan_for, truncate, STACK};
use crate::queries::{run_all, Cursor, Obs, Plan};
use crate::ws::Ws;
use crate::wspace::{for_each_workspace, WsCase};

pub struct C06;

/// (start, end, text) of every `Id` token of a file's parse.
pub type IdTokens = Vec<(usize, usize, String)>;

pub fn id_tokens(text: &str) -> IdTokens {
    syntax::parse(text)
        .syntax_node()
        .descendants_with_tokens()
        .filter_map(|e| e.into_token())
        .filter(|t| t.kind() == SyntaxKind::Id)
        .map(|t| (usize::from(t.text_range().start()), usize::from(t.text_range().end()), t.text().to_string()))
        .collect()
}

pub struct Coherence {
    ids: HashMap<FileId, IdTokens>,
    pub problems: Vec<(&'static str, String)>,
    pub answered: u64,
}

impl Coherence {
    pub fn new() -> Self {
        Coherence { ids: HashMap::new(), problems: Vec::new(), answered: 0 }
    }

    fn ids_of<'a>(&'a mut self, ws: &Ws, f: FileId) -> Option<&'a IdTokens> {
        if !self.ids.contains_key(&f) {
            let text = ws.text_of(f)?.to_string();
            self.ids.insert(f, id_tokens(&text));
        }
        self.ids.get(&f)
    }

    fn exact_id(&mut self, ws: &Ws, r: &FileRange) -> Option<String> {
        let (s, e) = (usize::from(r.range.start()), usize::from(r.range.end()));
        self.ids_of(ws, r.file)?.iter().find(|(a, b, _)| *a == s && *b == e).map(|t| t.2.clone())
    }

    fn problem(&mut self, clause: &'static str, msg: String) {
        if self.problems.len() < 4 {
            self.problems.push((clause, msg));
        }
    }
}

fn show(ws: &Ws, r: &FileRange) -> String {
    format!("{}:{}..{}", ws.fs.path_of(r.file), usize::from(r.range.start()), usize::from(r.range.end()))
}

impl Obs for Coherence {
    fn goto(&mut self, ws: &Ws, a: &Analysis, pos: FilePosition, r: &Option<FileRange>) {
        let Some(target) = r else { return };
        self.answered += 1;
        let off = usize::from(pos.position);
        let here = format!("{}@{}", ws.fs.path_of(pos.file), off);
        // the identifier under the cursor
        let cursor = self.ids_of(ws, pos.file).and_then(|ids| {
            ids.iter()
                .find(|(s, e, _)| *s <= off && off < *e)
                .or_else(|| ids.iter().find(|(s, e, _)| *s <= off && off <= *e))
                .cloned()
        });
        let Some((cs, ce, ctext)) = cursor else {
            self.problem("no-identifier-under-cursor", format!("go-to-definition at {here} answers {} but no identifier is under the cursor", show(ws, target)));
            return;
        };
        match self.exact_id(ws, target) {
            None => self.problem("target-not-identifier", format!("definition of {ctext:?} at {here} is {} which is not exactly an identifier token of that file", show(ws, target))),
            Some(t) if t != ctext => self.problem("target-other-name", format!("definition of {ctext:?} at {here} is {} spelled {t:?}", show(ws, target))),
            Some(_) => {}
        }
        let refs = a.references(pos).unwrap_or_default();
        let cursor_range = (pos.file, cs, ce);
        let mut cursor_seen = (target.file, usize::from(target.range.start()), usize::from(target.range.end())) == cursor_range;
        for rf in &refs {
            match self.exact_id(ws, rf) {
                None => self.problem("reference-not-identifier", format!("reference {} of {ctext:?} (asked at {here}) is not exactly an identifier token", show(ws, rf))),
                Some(t) if t != ctext => self.problem("reference-other-name", format!("reference {} of {ctext:?} (asked at {here}) is spelled {t:?}", show(ws, rf))),
                Some(_) => {}
            }
            if (rf.file, usize::from(rf.range.start()), usize::from(rf.range.end())) == cursor_range {
                cursor_seen = true;
            }
            // go-to-definition from the reference gives the same target
            let back = a.goto_definition(FilePosition::new(rf.file, rf.range.start()));
            if back.as_ref() != Some(target) {
                self.problem(
                    "reference-resolves-elsewhere",
                    format!(
                        "{ctext:?} at {here} resolves to {}, but its reference {} resolves to {}",
                        show(ws, target),
                        show(ws, rf),
                        back.map(|b| show(ws, &b)).unwrap_or_else(|| "nothing".into())
                    ),
                );
            }
        }
        if !cursor_seen {
            self.problem("cursor-not-linked", format!("{ctext:?} at {here} resolves to {} but is neither that declaration nor one of its {} references", show(ws, target), refs.len()));
        }
    }

    fn refs(&mut self, ws: &Ws, a: &Analysis, pos: FilePosition, r: &Option<Vec<FileRange>>) {
        // references answer iff definition answers (one symbol table)
        let g = a.goto_definition(pos);
        if r.is_some() != g.is_some() {
            self.problem(
                "one-directional",
                format!("at {}@{} references answered={} but definition answered={}", ws.fs.path_of(pos.file), usize::from(pos.position), r.is_some(), g.is_some()),
            );
        }
    }
}

pub fn eval_ws(case: &WsCase, plan: Plan) -> (Vec<Failure>, u64) {
    let mut cur = Cursor::default();
    let mut obs = Coherence::new();
    let r = guard(|| {
        let ws = Ws::new(&case.files, &case.root);
        let a = ws.analysis();
        run_positions(&ws, &a, &mut obs, &mut cur, plan);
    });
    let mut out: Vec<Failure> = obs
        .problems
        .iter()
        .map(|(c, d)| Failure::new(c, case.witness(), d.clone(), case.to_json()))
        .collect();
    if let Err(p) = r {
        out.push(Failure::new("crash", case.witness(), format!("{} at {} during {}", p.message, p.location, cur.describe()), case.to_json()));
    }
    (out, obs.answered)
}

/// Only definition and references matter here; reuse the full driver.
fn run_positions(ws: &Ws, a: &Analysis, obs: &mut Coherence, cur: &mut Cursor, plan: Plan) {
    run_all(ws, a, obs, cur, plan);
}

impl Engine for C06 {
    fn id(&self) -> &'static str {
        "C06"
    }

    fn rule(&self, tier: Tier) -> String {
        format!(
            "the C03 workspace space ({}); at every queried offset: if go-to-definition answers, target and every reference are exactly Id tokens (per an independent parse) spelled like the Id under the cursor, \
             go-to-definition from every reference returns the same target, the cursor token is the target or a reference, and references answers iff definition answers. \
             non-trivial = workspaces in which at least one offset resolves; distinct by construction.",
            tier.pick("quick plan: edit/prefix states are queried around the edit point and at every 8th token elsewhere", "every offset")
        )
    }

    fn assumptions(&self) -> Vec<String> {
        vec!["'identifier under the cursor' = the Id token containing the offset (start <= offset < end), else the one ending at the offset".into()]
    }

    fn trace_always(&self) -> bool {
        true
    }

    fn explore(&self, tier: Tier, ctx: &mut Ctx) {
        let r = guard_on_stack(STACK, || {
            for_each_workspace(tier, ctx, |ctx, case| {
                ctx.trace(|| case.to_json());
                let (fails, answered) = eval_ws(case, plan_for(case, tier));
                ctx.case(answered > 0);
                ctx.add("offsets_resolved", answered);
                ctx.add(case.stratum, 1);
                if answered > 0 {
                    ctx.sample(|| json!({ "stratum": case.stratum, "workspace": truncate(&case.witness(), 200), "offsets_resolved": answered }));
                }
                for f in fails {
                    ctx.fail(f);
                }
                !ctx.expired()
            });
        });
        if let Err(p) = r {
            panic!("harness panic: {} at {}", p.message, p.location);
        }
    }

    fn eval_case(&self, case: &Value) -> Vec<Failure> {
        let case = WsCase::from_json(case);
        guard_on_stack(STACK, || eval_ws(&case, plan_for(&case, Tier::Quick)).0).unwrap_or_default()
    }

    fn shrink(&self, case: &Value, _clause: &str) -> Vec<Value> {
        WsCase::from_json(case).shrink().into_iter().map(|c| c.to_json()).collect()
    }
}
