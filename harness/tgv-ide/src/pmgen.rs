//! Bounded-exhaustive program enumerators over the program model.
//!
//! `scope_programs`: every nesting path of scope-opening constructs up to a
//! depth x every expression wrapper x every layout; each program carries a
//! probe use of every pool name at every site inside and after every construct.

use crate::pm::*;

pub fn id(n: &str) -> E {
    E::Id(n.to_string())
}

pub fn int(i: i64) -> E {
    E::Int(i)
}

#[derive(Debug, Clone, Copy, PartialEq, Eq)]
pub enum Ctor {
    ForeachBraces,
    ForeachSingle,
    LetBraces,
    IfThen,
    IfElse,
    Defset,
    MulticlassT,
    MulticlassNoT,
}

pub const CTORS: &[Ctor] = &[
    Ctor::ForeachBraces,
    Ctor::ForeachSingle,
    Ctor::LetBraces,
    Ctor::IfThen,
    Ctor::IfElse,
    Ctor::Defset,
    Ctor::MulticlassT,
    Ctor::MulticlassNoT,
];

/// Names probed at every site: variables, template arguments, fields, defs, a defset, an undeclared name.
pub const POOL: &[&str] = &["u", "w", "p", "q", "f", "g", "x", "y", "s", "bp", "zz", "bv", "h2", "ys"];

pub const WRAPPERS: usize = 21;

/// The probe name inside one of the use positions the indexer visits.
pub fn wrap(w: usize, n: &str) -> E {
    match w % WRAPPERS {
        0 => id(n),
        1 => E::List(vec![int(0), id(n)]),
        2 => E::Bang("!add".into(), None, vec![id(n), int(1)]),
        3 => E::Dag(Box::new(id("x")), vec![(id(n), Some("a".into())), (int(2), None)]),
        4 => E::Cond(vec![(id(n), int(1)), (E::Bool(true), id(n))]),
        5 => E::Paste(Box::new(id(n)), Box::new(E::Str("s".into()))),
        6 => E::ClassVal("Base".into(), vec![id(n)], vec![]),
        7 => E::Bits(vec![id(n), int(1)]),
        8 => E::Bang("!if".into(), None, vec![E::Bool(true), id(n), id(n)]),
        9 => E::BForeach("e".into(), Box::new(E::List(vec![int(1)])), Box::new(E::Bang("!add".into(), None, vec![id("e"), id(n)]))),
        10 => E::BFoldl(Box::new(int(0)), Box::new(E::List(vec![int(1)])), "a".into(), "b".into(), Box::new(E::Bang("!add".into(), None, vec![id("a"), id("b"), id(n)]))),
        // the base of a field access, of an element access, of a bit access; the operator of a dag;
        // the operand of a typed operator; the sequence of !foreach and the start value of !foldl
        12 => E::Field(Box::new(id(n)), "f".into()),
        13 => E::ElemAt(Box::new(id(n)), 0),
        14 => E::BitAt(Box::new(id(n)), 0),
        15 => E::Dag(Box::new(id(n)), vec![(int(1), None)]),
        16 => E::Bang("!cast".into(), Some(Ty::Class("Base".into())), vec![id(n)]),
        // (the variable is not used: it is only declared when the sequence is a list, which the probe names are not)
        17 => E::BForeach("e".into(), Box::new(id(n)), Box::new(int(0))),
        18 => E::BFoldl(Box::new(id(n)), Box::new(E::List(vec![int(1)])), "a".into(), "b".into(), Box::new(E::Bang("!add".into(), None, vec![id("a"), id("b")]))),
        // inside a !foreach body that has no computable type
        19 => E::BForeach("e".into(), Box::new(E::List(vec![int(1)])), Box::new(E::Cond(vec![(E::Bool(true), E::Bang("!add".into(), None, vec![id("e"), id(n)]))]))),
        // behind a paste operand that has no computable type
        20 => E::Paste(Box::new(E::Cond(vec![(E::Bool(true), E::Str("z".into()))])), Box::new(id(n))),
        _ => E::BFilter("e".into(), Box::new(E::List(vec![int(1), int(2)])), Box::new(E::Bang("!eq".into(), None, vec![id("e"), id(n)]))),
    }
}

struct Gen {
    next: usize,
    wrapper: usize,
    probes: usize,
}

impl Gen {
    /// the pool name in the current use position, tagged as a probe
    fn probe(&mut self, n: &str) -> E {
        self.probes += 1;
        E::Probe(self.probes, Box::new(wrap(self.wrapper, n)))
    }

    fn fresh(&mut self) -> String {
        self.next += 1;
        format!("z{}", self.next)
    }

    /// one probe statement per pool name; `in_multiclass` restricts the statement kinds
    fn probes(&mut self, in_multiclass: bool, out: &mut Vec<Item>) {
        for (k, n) in POOL.iter().enumerate() {
            let e = self.probe(n);
            if in_multiclass {
                match k % 3 {
                    0 => out.push(Item::Assert { cond: e, msg: E::Str("m".into()) }),
                    1 => out.push(Item::Dump(e)),
                    _ => out.push(Item::Def { doc: vec![], blank: false, name: None, parents: vec![CRef::with("Base", vec![e])], body: None }),
                }
            } else {
                match k % 4 {
                    0 | 1 => out.push(Item::Defvar { name: self.fresh(), value: e }),
                    2 => out.push(Item::Assert { cond: E::Bool(true), msg: e }),
                    _ => out.push(Item::Dump(e)),
                }
            }
        }
    }

    /// leaf records whose bodies, parent arguments and template defaults hold probes
    fn leaves(&mut self, in_multiclass: bool, tag: usize, out: &mut Vec<Item>) {
        if !in_multiclass {
            // a class with its own template arguments, an inherited and an own field, a body defvar
            let mut body = Vec::new();
            body.push(BI::Field {
                doc: vec![],
                blank: false,
                ty: Ty::List(Box::new(Ty::Int)),
                name: self.fresh(),
                init: Some(E::BForeach("bv".into(), Box::new(E::List(vec![int(1)])), Box::new(E::Bang("!add".into(), None, vec![id("bv"), int(1)])))),
            });
            for n in POOL {
                // a parent's template argument used in an heir is left undefined by the property
                if *n == "bp" {
                    continue;
                }
                body.push(BI::Field { doc: vec![], blank: false, ty: Ty::Int, name: self.fresh(), init: Some(self.probe(n)) });
            }
            body.push(BI::Defvar { name: "w".into(), value: int(7) });
            body.push(BI::Field { doc: vec![], blank: false, ty: Ty::Int, name: self.fresh(), init: Some(self.probe("w")) });
            body.push(BI::Assert { cond: self.probe("p"), msg: E::Str("m".into()) });
            body.push(BI::Dump(self.probe("q")));
            let default = self.probe("p");
            let parent_arg = self.probe("q");
            out.push(Item::Class {
                doc: vec![],
                blank: false,
                name: format!("L{tag}"),
                targs: vec![
                    TArg { ty: Ty::Int, name: "p".into(), default: None },
                    TArg { ty: Ty::Int, name: "q".into(), default: Some(default) },
                    // named like the iterator of an enclosing foreach: inside the class the argument wins
                    TArg { ty: Ty::Int, name: "u".into(), default: Some(int(0)) },
                ],
                parents: vec![CRef::with("Base", vec![parent_arg])],
                body: Some(body),
            });
        }
        // a def: parent argument, let value, field initialiser
        let mut body = Vec::new();
        for n in ["u", "f", "x", "zz"] {
            body.push(BI::Field { doc: vec![], blank: false, ty: Ty::Int, name: self.fresh(), init: Some(self.probe(n)) });
        }
        body.push(BI::Let { name: "g".into(), value: self.probe("u") });
        // fields named like a variable of an enclosing block and like the iterator of an enclosing
        // foreach: after their declaration the fields win inside the record
        body.push(BI::Field { doc: vec![], blank: false, ty: Ty::Int, name: "w".into(), init: Some(int(4)) });
        body.push(BI::Field { doc: vec![], blank: false, ty: Ty::Int, name: self.fresh(), init: Some(self.probe("w")) });
        body.push(BI::Field { doc: vec![], blank: false, ty: Ty::Int, name: "u".into(), init: Some(int(6)) });
        body.push(BI::Field { doc: vec![], blank: false, ty: Ty::Int, name: self.fresh(), init: Some(self.probe("u")) });
        let def_arg = self.probe("u");
        let defm_arg = self.probe("u");
        out.push(Item::Def {
            doc: vec![],
            blank: false,
            name: Some(format!("d{tag}")),
            parents: vec![CRef::with("Base", vec![def_arg])],
            body: Some(body),
        });
        // two parents: the arguments of the second see the fields inherited from the first
        let second_f = self.probe("f");
        let second_u = self.probe("u");
        let second_h2 = self.probe("h2");
        out.push(Item::Def {
            doc: vec![],
            blank: false,
            name: Some(format!("dd{tag}")),
            parents: vec![CRef::with("Base", vec![int(1)]), CRef::with("Base2", vec![second_f])],
            body: Some(vec![BI::Field { doc: vec![], blank: false, ty: Ty::Int, name: self.fresh(), init: Some(self.probe("h2")) }]),
        });
        out.push(Item::Def { doc: vec![], blank: false, name: Some(format!("de{tag}")), parents: vec![CRef::with("Base2", vec![second_u]), CRef::with("Base", vec![second_h2])], body: None });
        out.push(Item::Defm { name: Some(format!("m{tag}")), parents: vec![CRef::with("MM", vec![defm_arg])] });
        // a defm without a name: the uses inside it resolve like anywhere else
        let anon_arg = self.probe("u");
        out.push(Item::Defm { name: None, parents: vec![CRef::with("MM", vec![anon_arg])] });
        // a let list consumed out of order: the first record has the field of the second binding only, the
        // second record the field of the first (nested the same way)
        let crossing = |tag: &str| vec![
            Item::Def { doc: vec![], blank: false, name: Some(format!("lf{tag}")), parents: vec![CRef::with("Base", vec![int(1)])], body: None },
            Item::Def { doc: vec![], blank: false, name: Some(format!("lh{tag}")), parents: vec![CRef::with("Base2", vec![int(1)])], body: None },
        ];
        out.push(Item::Let { binds: vec![("h2".into(), int(1)), ("f".into(), int(2))], body: crossing(&format!("{tag}")), braces: true });
        let mut nested = vec![Item::Let { binds: vec![("f".into(), int(2))], body: crossing(&format!("{tag}n"))[..1].to_vec(), braces: false }];
        nested.extend(crossing(&format!("{tag}n"))[1..].to_vec());
        out.push(Item::Let { binds: vec![("h2".into(), int(1))], body: nested, braces: true });
    }

    /// two statements whose `!foreach` variables end with the operator: `bv` is unbound afterwards and
    /// `x` denotes the global def again
    fn bang_variables(&mut self, in_multiclass: bool, out: &mut Vec<Item>) {
        for v in ["bv", "x"] {
            let one = || Box::new(E::List(vec![int(1)]));
            let add = |a: &str, b: E| Box::new(E::Bang("!add".into(), None, vec![id(a), b]));
            // the variable of !foreach and !filter, the accumulator and the element of !foldl
            let values = [
                E::BForeach(v.into(), one(), add(v, int(1))),
                E::BFilter(v.into(), one(), Box::new(E::Bang("!eq".into(), None, vec![id(v), int(1)]))),
                E::BFoldl(Box::new(int(0)), one(), v.into(), "el".into(), add(v, id("el"))),
                E::BFoldl(Box::new(int(0)), one(), "ac".into(), v.into(), add("ac", id(v))),
            ];
            for e in values {
                out.push(if in_multiclass { Item::Dump(e) } else { Item::Defvar { name: self.fresh(), value: e } });
            }
        }
    }

    fn level(&mut self, path: &[Ctor], depth: usize, in_multiclass: bool, out: &mut Vec<Item>) {
        self.bang_variables(in_multiclass, out);
        self.probes(in_multiclass, out);
        let Some((&c, rest)) = path.split_first() else {
            self.leaves(in_multiclass, depth, out);
            return;
        };
        let inner_mc = in_multiclass || matches!(c, Ctor::MulticlassT | Ctor::MulticlassNoT);
        let mut inner = Vec::new();
        // a defset body is not a block of its own in llvm-tblgen: a variable declared directly in it would
        // redefine the enclosing block's (undefined by the property), so none is declared there
        if !inner_mc && !matches!(c, Ctor::ForeachSingle | Ctor::Defset) {
            // a block-local variable, declared before the nested constructs
            inner.push(Item::Defvar { name: "w".into(), value: int(5) });
            inner.push(Item::Def { doc: vec![], blank: false, name: Some(format!("y{depth}")), parents: vec![CRef::with("Base", vec![int(2)])], body: None });
        }
        if c == Ctor::Defset {
            // a member of the set: a global value like any other def, by its own name
            inner.push(Item::Def { doc: vec![], blank: false, name: Some("ys".into()), parents: vec![CRef::with("Base", vec![int(3)])], body: None });
        }
        match c {
            Ctor::ForeachSingle => {
                // a single statement: the nested construct, or one probe
                let mut one = Vec::new();
                if rest.is_empty() {
                    let e = self.probe("u");
                    one.push(if in_multiclass { Item::Dump(e) } else { Item::Defvar { name: self.fresh(), value: e } });
                } else {
                    let mut tmp = Vec::new();
                    self.level(rest, depth + 1, inner_mc, &mut tmp);
                    // keep only the nested construct (the single statement)
                    if let Some(pos) = tmp.iter().position(is_block_item) {
                        one.push(tmp.remove(pos));
                    } else {
                        let e = self.probe("u");
                        one.push(Item::Dump(e));
                    }
                }
                out.push(Item::Foreach { var: "u".into(), list: E::List(vec![int(3)]), body: one, braces: false });
            }
            _ => {
                self.level(rest, depth + 1, inner_mc, &mut inner);
                // after the nested construct, still inside this one
                self.probes(inner_mc, &mut inner);
                if c == Ctor::ForeachBraces && !inner_mc {
                    // a variable of the body named like the iterator: from here on the name is the variable
                    inner.push(Item::Defvar { name: "u".into(), value: int(10) });
                    self.probes(inner_mc, &mut inner);
                }
                out.push(match c {
                    Ctor::ForeachBraces => Item::Foreach { var: "u".into(), list: E::List(vec![int(1), int(2)]), body: inner, braces: true },
                    Ctor::LetBraces => Item::Let { binds: vec![("g".into(), int(2))], body: inner, braces: true },
                    Ctor::IfThen => Item::If { cond: E::Bool(true), then: inner, then_braces: true, els: None },
                    Ctor::IfElse => Item::If { cond: E::Bool(false), then: vec![], then_braces: true, els: Some(inner) },
                    Ctor::Defset => Item::Defset { ty: Ty::List(Box::new(Ty::Class("Base".into()))), name: "s".into(), body: inner },
                    Ctor::MulticlassT => Item::Multiclass {
                        doc: vec![],
                        name: format!("M{depth}"),
                        // `q` is also a global variable: inside the multiclass the argument wins
                        targs: vec![TArg { ty: Ty::Int, name: "p".into(), default: None }, TArg { ty: Ty::Int, name: "q".into(), default: None }],
                        parents: vec![],
                        body: inner,
                    },
                    Ctor::MulticlassNoT => Item::Multiclass { doc: vec![], name: format!("N{depth}"), targs: vec![], parents: vec![], body: inner },
                    Ctor::ForeachSingle => unreachable!(),
                });
            }
        }
        // after the construct has ended
        self.probes(in_multiclass, out);
    }
}

fn is_block_item(i: &Item) -> bool {
    matches!(i, Item::Foreach { .. } | Item::Let { .. } | Item::If { .. } | Item::Defset { .. } | Item::Multiclass { .. })
}

/// A nesting path is admissible when the language allows it: no defset or
/// multiclass inside a multiclass body, no multiclass inside a defset.
pub fn admissible(path: &[Ctor]) -> bool {
    let mut in_mc = false;
    let mut in_defset = false;
    for (i, c) in path.iter().enumerate() {
        match c {
            Ctor::MulticlassT | Ctor::MulticlassNoT => {
                // multiclasses are top-level statements in TableGen
                if i != 0 {
                    return false;
                }
                in_mc = true;
            }
            Ctor::Defset => {
                if in_mc || in_defset {
                    return false;
                }
                in_defset = true;
            }
            _ => {}
        }
    }
    true
}

fn prelude() -> Vec<Item> {
    vec![
        Item::Class {
            doc: vec![],
            blank: false,
            name: "Base".into(),
            targs: vec![TArg { ty: Ty::Int, name: "bp".into(), default: None }],
            parents: vec![],
            body: Some(vec![
                BI::Field { doc: vec![], blank: false, ty: Ty::Int, name: "f".into(), init: Some(id("bp")) },
                BI::Field { doc: vec![], blank: false, ty: Ty::Int, name: "g".into(), init: Some(int(1)) },
            ]),
        },
        // a second class, for parent lists with two entries
        Item::Class {
            doc: vec![],
            blank: false,
            name: "Base2".into(),
            targs: vec![TArg { ty: Ty::Int, name: "bq".into(), default: None }],
            parents: vec![],
            body: Some(vec![BI::Field { doc: vec![], blank: false, ty: Ty::Int, name: "h2".into(), init: Some(id("bq")) }]),
        },
        Item::Multiclass {
            doc: vec![],
            name: "MM".into(),
            targs: vec![TArg { ty: Ty::Int, name: "mp".into(), default: None }],
            parents: vec![],
            body: vec![Item::Def { doc: vec![], blank: false, name: Some("_i".into()), parents: vec![CRef::with("Base", vec![id("mp")])], body: None }],
        },
        Item::Def { doc: vec![], blank: false, name: Some("x".into()), parents: vec![CRef::with("Base", vec![int(1)])], body: None },
    ]
}

/// layout 0: one file; 1: the prelude lives in an included file; 2 / 3: as 0 / 1 with a forward declaration of the class;
/// 4: a diamond (the prelude is included directly and through a second file).
pub fn scope_program(path: &[Ctor], wrapper: usize, layout: usize) -> Program {
    let mut g = Gen { next: 0, wrapper, probes: 0 };
    // a global variable named like a template argument of the leaf class and of the multiclass
    let mut items = vec![Item::Defvar { name: "q".into(), value: int(8) }];
    g.level(path, 0, false, &mut items);
    // field access through a def and through a class value; global values after their declaration
    items.push(Item::Defvar { name: g.fresh(), value: E::Field(Box::new(id("x")), "f".into()) });
    items.push(Item::Defvar { name: g.fresh(), value: E::Field(Box::new(E::ClassVal("Base".into(), vec![int(1)], vec![])), "g".into()) });
    let forward = || Item::Class { doc: vec![], blank: false, name: "Base".into(), targs: vec![], parents: vec![], body: None };
    if layout == 0 {
        let mut all = prelude();
        all.extend(items);
        Program { files: vec![("a.td".into(), all)] }
    } else if layout == 2 {
        // the class is forward declared before its definition
        let mut all = vec![forward()];
        all.extend(prelude());
        all.extend(items);
        Program { files: vec![("a.td".into(), all)] }
    } else if layout == 4 {
        // a diamond: the prelude is included directly and again through mid.td, which goes on
        // declaring and using names after the repeated include
        // ... and two further included files with the same text: the same names are used at the same
        // offsets of different files
        let mut root = vec![Item::Include("inc.td".into()), Item::Include("mid.td".into()), Item::Include("t1.td".into()), Item::Include("t2.td".into())];
        root.extend(items);
        let twin = || vec![Item::Def { doc: vec![], blank: false, name: None, parents: vec![CRef::with("Base", vec![int(3)])], body: Some(vec![BI::Let { name: "f".into(), value: int(4) }]) }];
        let mid = vec![
            Item::Include("inc.td".into()),
            Item::Def { doc: vec![], blank: false, name: Some("midd".into()), parents: vec![CRef::with("Base", vec![int(2)])], body: None },
            Item::Defvar { name: "midv".into(), value: E::Field(Box::new(id("midd")), "g".into()) },
        ];
        Program { files: vec![("a.td".into(), root), ("inc.td".into(), prelude()), ("mid.td".into(), mid), ("t1.td".into(), twin()), ("t2.td".into(), twin())] }
    } else if layout == 3 {
        // forward declared in the root, defined in the included file
        let mut root = vec![forward(), Item::Include("inc.td".into())];
        root.extend(items);
        Program { files: vec![("a.td".into(), root), ("inc.td".into(), prelude())] }
    } else {
        let mut root = vec![Item::Include("inc.td".into())];
        root.extend(items);
        Program { files: vec![("a.td".into(), root), ("inc.td".into(), prelude())] }
    }
}

/// Calls `f` with every admissible path of length 0..=max_depth (by index, for sharding).
pub fn for_each_path(max_depth: u32, mut f: impl FnMut(u64, &[Ctor]) -> bool) {
    let k = CTORS.len() as u64;
    let total = tgv_core::words::count_upto(k, max_depth);
    let mut w = Vec::new();
    for idx in 0..total {
        tgv_core::words::decode(idx, k, max_depth, &mut w);
        let path: Vec<Ctor> = w.iter().map(|&i| CTORS[i]).collect();
        if !admissible(&path) {
            continue;
        }
        if !f(idx, &path) {
            return;
        }
    }
}

/// Replaces the probes whose id is in `drop` by a literal.
pub fn without_probes(p: &Program, drop: &std::collections::BTreeSet<usize>) -> Program {
    fn e(x: &E, drop: &std::collections::BTreeSet<usize>) -> E {
        let b = |y: &E| Box::new(e(y, drop));
        match x {
            E::Probe(id, _) if drop.contains(id) => E::Int(0),
            E::Probe(id, inner) => E::Probe(*id, b(inner)),
            E::ClassVal(c, a, n) => E::ClassVal(c.clone(), a.iter().map(|y| e(y, drop)).collect(), n.iter().map(|(k, y)| (k.clone(), e(y, drop))).collect()),
            E::Field(base, f) => E::Field(b(base), f.clone()),
            E::List(v) => E::List(v.iter().map(|y| e(y, drop)).collect()),
            E::Bits(v) => E::Bits(v.iter().map(|y| e(y, drop)).collect()),
            E::Dag(op, args) => E::Dag(b(op), args.iter().map(|(y, n)| (e(y, drop), n.clone())).collect()),
            E::Paste(x1, x2) => E::Paste(b(x1), b(x2)),
            E::Bang(op, t, args) => E::Bang(op.clone(), t.clone(), args.iter().map(|y| e(y, drop)).collect()),
            E::BForeach(v, l, body) => E::BForeach(v.clone(), b(l), b(body)),
            E::BFilter(v, l, body) => E::BFilter(v.clone(), b(l), b(body)),
            E::BFoldl(i, l, a, v, body) => E::BFoldl(b(i), b(l), a.clone(), v.clone(), b(body)),
            E::Cond(cs) => E::Cond(cs.iter().map(|(c, v)| (e(c, drop), e(v, drop))).collect()),
            E::BitAt(x1, i) => E::BitAt(b(x1), *i),
            E::BitRange(x1, h, l) => E::BitRange(b(x1), *h, *l),
            E::ElemAt(x1, i) => E::ElemAt(b(x1), *i),
            E::Slice(x1, l, h) => E::Slice(b(x1), *l, *h),
            other => other.clone(),
        }
    }
    fn cref(c: &CRef, drop: &std::collections::BTreeSet<usize>) -> CRef {
        CRef { name: c.name.clone(), args: c.args.iter().map(|y| e(y, drop)).collect(), named: c.named.iter().map(|(k, y)| (k.clone(), e(y, drop))).collect() }
    }
    fn targ(t: &TArg, drop: &std::collections::BTreeSet<usize>) -> TArg {
        TArg { ty: t.ty.clone(), name: t.name.clone(), default: t.default.as_ref().map(|y| e(y, drop)) }
    }
    fn bi(x: &BI, drop: &std::collections::BTreeSet<usize>) -> BI {
        match x {
            BI::Field { doc, blank, ty, name, init } => BI::Field { doc: doc.clone(), blank: *blank, ty: ty.clone(), name: name.clone(), init: init.as_ref().map(|y| e(y, drop)) },
            BI::Let { name, value } => BI::Let { name: name.clone(), value: e(value, drop) },
            BI::Defvar { name, value } => BI::Defvar { name: name.clone(), value: e(value, drop) },
            BI::Assert { cond, msg } => BI::Assert { cond: e(cond, drop), msg: e(msg, drop) },
            BI::Dump(y) => BI::Dump(e(y, drop)),
        }
    }
    fn item(x: &Item, drop: &std::collections::BTreeSet<usize>) -> Item {
        let items = |v: &Vec<Item>| v.iter().map(|y| item(y, drop)).collect::<Vec<_>>();
        match x {
            Item::Class { doc, blank, name, targs, parents, body } => Item::Class {
                doc: doc.clone(),
                blank: *blank,
                name: name.clone(),
                targs: targs.iter().map(|t| targ(t, drop)).collect(),
                parents: parents.iter().map(|c| cref(c, drop)).collect(),
                body: body.as_ref().map(|b| b.iter().map(|y| bi(y, drop)).collect()),
            },
            Item::Def { doc, blank, name, parents, body } => Item::Def {
                doc: doc.clone(),
                blank: *blank,
                name: name.clone(),
                parents: parents.iter().map(|c| cref(c, drop)).collect(),
                body: body.as_ref().map(|b| b.iter().map(|y| bi(y, drop)).collect()),
            },
            Item::Defvar { name, value } => Item::Defvar { name: name.clone(), value: e(value, drop) },
            Item::Foreach { var, list, body, braces } => Item::Foreach { var: var.clone(), list: e(list, drop), body: items(body), braces: *braces },
            Item::Let { binds, body, braces } => Item::Let { binds: binds.iter().map(|(k, y)| (k.clone(), e(y, drop))).collect(), body: items(body), braces: *braces },
            Item::If { cond, then, then_braces, els } => Item::If { cond: e(cond, drop), then: items(then), then_braces: *then_braces, els: els.as_ref().map(items) },
            Item::Defset { ty, name, body } => Item::Defset { ty: ty.clone(), name: name.clone(), body: items(body) },
            Item::Multiclass { doc, name, targs, parents, body } => Item::Multiclass {
                doc: doc.clone(),
                name: name.clone(),
                targs: targs.iter().map(|t| targ(t, drop)).collect(),
                parents: parents.iter().map(|c| cref(c, drop)).collect(),
                body: items(body),
            },
            Item::Defm { name, parents } => Item::Defm { name: name.clone(), parents: parents.iter().map(|c| cref(c, drop)).collect() },
            Item::Assert { cond, msg } => Item::Assert { cond: e(cond, drop), msg: e(msg, drop) },
            Item::Dump(y) => Item::Dump(e(y, drop)),
            other => other.clone(),
        }
    }
    Program { files: p.files.iter().map(|(n, v)| (n.clone(), v.iter().map(|y| item(y, drop)).collect())).collect() }
}

/// Splits a probe-laden program into (A) the well-scoped program - every probe the
/// reference cannot resolve is replaced by a literal - and (B) the full program,
/// to be judged only at its out-of-scope uses.
pub fn well_scoped(p: &Program) -> Program {
    let em = emit(p);
    let drop: std::collections::BTreeSet<usize> = em.occs.iter().filter(|o| o.judged && !o.is_decl && o.target.is_none()).filter_map(|o| o.probe).collect();
    without_probes(p, &drop)
}

// ---------------------------------------------------------------------------
// declaration-structure programs (C18, C19)

fn field(ty: Ty, name: &str, init: Option<E>, doc: &[&str], blank: bool) -> BI {
    BI::Field { doc: doc.iter().map(|s| s.to_string()).collect(), blank, ty, name: name.into(), init }
}

/// Every declaration form with its optional parts present and absent.
pub fn declaration_variants() -> Vec<Vec<Item>> {
    let mut out: Vec<Vec<Item>> = Vec::new();
    let base = Item::Class {
        doc: vec![],
        blank: false,
        name: "P".into(),
        targs: vec![TArg { ty: Ty::Int, name: "a".into(), default: None }, TArg { ty: Ty::Str, name: "b".into(), default: Some(E::Str("d".into())) }],
        parents: vec![],
        body: Some(vec![field(Ty::Int, "f", Some(id("a")), &[], false), field(Ty::List(Box::new(Ty::Int)), "g", None, &[], false)]),
    };
    // classes
    for targs in 0..3usize {
        for parent in [false, true] {
            for body in 0..3usize {
                let t: Vec<TArg> = (0..targs).map(|i| TArg { ty: if i == 0 { Ty::Int } else { Ty::Bits(4) }, name: format!("t{i}"), default: if i == 1 { Some(int(3)) } else { None } }).collect();
                let b = match body {
                    0 => None,
                    1 => Some(vec![]),
                    _ => Some(vec![
                        field(Ty::Int, "h", Some(int(1)), &[], false),
                        BI::Defvar { name: "v".into(), value: int(2) },
                        field(Ty::Class("P".into()), "k", None, &[], false),
                        BI::Assert { cond: E::Bool(true), msg: E::Str("m".into()) },
                    ]),
                };
                let mut items = vec![base.clone()];
                let mut b2 = b.clone();
                if parent {
                    if let Some(v) = b2.as_mut() {
                        v.push(BI::Let { name: "f".into(), value: int(9) });
                    }
                }
                items.push(Item::Class {
                    doc: vec![],
                    blank: false,
                    name: "C".into(),
                    targs: t,
                    parents: if parent { vec![CRef::with("P", vec![int(1)])] } else { vec![] },
                    body: b2,
                });
                out.push(items);
            }
        }
    }
    // defs: named / anonymous, with and without parent and body
    for named in [true, false] {
        for parent in [false, true] {
            for body in 0..3usize {
                let b = match body {
                    0 => None,
                    1 => Some(vec![]),
                    _ => {
                        let mut v = vec![field(Ty::Str, "s", Some(E::Str("x".into())), &[], false)];
                        if parent {
                            v.push(BI::Let { name: "g".into(), value: E::List(vec![int(1)]) });
                            v.push(BI::Let { name: "f".into(), value: int(2) });
                        }
                        Some(v)
                    }
                };
                out.push(vec![
                    base.clone(),
                    Item::Def { doc: vec![], blank: false, name: named.then(|| "d".to_string()), parents: if parent { vec![CRef::with("P", vec![int(1), E::Str("z".into())])] } else { vec![] }, body: b },
                ]);
            }
        }
    }
    // fields and overrides whose values have no computable type (`!cond`, a bit of an integer) are
    // members all the same
    let untyped = || E::Cond(vec![(E::Bool(false), int(1)), (E::Bool(true), int(2))]);
    out.push(vec![
        base.clone(),
        Item::Def {
            doc: vec![],
            blank: false,
            name: Some("d".into()),
            parents: vec![CRef::with("P", vec![int(1)])],
            body: Some(vec![
                field(Ty::Int, "before", Some(untyped()), &[], false),
                BI::Let { name: "f".into(), value: untyped() },
                BI::Let { name: "g".into(), value: E::Cond(vec![(E::Bool(true), E::List(vec![int(1)]))]) },
                field(Ty::Bit, "after", Some(E::BitAt(Box::new(id("before")), 0)), &[], false),
            ]),
        },
    ]);
    out.push(vec![
        base.clone(),
        Item::Class {
            doc: vec![],
            blank: false,
            name: "C".into(),
            targs: vec![TArg { ty: Ty::Int, name: "t0".into(), default: Some(untyped()) }, TArg { ty: Ty::Int, name: "t1".into(), default: Some(int(1)) }],
            parents: vec![CRef::with("P", vec![id("t0")])],
            body: Some(vec![BI::Let { name: "f".into(), value: untyped() }, field(Ty::Int, "own", Some(id("t1")), &[], false)]),
        },
        Item::Def { doc: vec![], blank: false, name: Some("dc".into()), parents: vec![CRef::with("C", vec![int(1), int(2)])], body: None },
    ]);
    // a `!foreach` whose body has no computable type, in a defset member and in a class: what follows
    // keeps its place in the outline
    let fe = || E::BForeach("e".into(), Box::new(E::List(vec![int(1)])), Box::new(E::Cond(vec![(E::Bool(true), id("e"))])));
    out.push(vec![
        base.clone(),
        Item::Defset {
            ty: Ty::List(Box::new(Ty::Class("P".into()))),
            name: "S".into(),
            body: vec![Item::Def { doc: vec![], blank: false, name: Some("m1".into()), parents: vec![CRef::with("P", vec![int(1)])], body: Some(vec![field(Ty::List(Box::new(Ty::Int)), "l", Some(fe()), &[], false)]) }],
        },
        Item::Def { doc: vec![], blank: false, name: Some("after1".into()), parents: vec![CRef::with("P", vec![int(2)])], body: None },
        Item::Def { doc: vec![], blank: false, name: Some("after2".into()), parents: vec![], body: Some(vec![field(Ty::Int, "own", Some(int(1)), &[], false)]) },
    ]);
    out.push(vec![
        base.clone(),
        Item::Class { doc: vec![], blank: false, name: "C".into(), targs: vec![], parents: vec![], body: Some(vec![field(Ty::List(Box::new(Ty::Int)), "l", Some(fe()), &[], false), field(Ty::Int, "z", Some(int(1)), &[], false)]) },
        Item::Multiclass { doc: vec![], name: "MAfter".into(), targs: vec![TArg { ty: Ty::Int, name: "mt0".into(), default: None }], parents: vec![], body: vec![Item::Def { doc: vec![], blank: false, name: Some("_x".into()), parents: vec![CRef::with("P", vec![id("mt0")])], body: None }] },
        Item::Def { doc: vec![], blank: false, name: Some("after".into()), parents: vec![CRef::with("C", vec![])], body: None },
    ]);
    // a field declared again, under the name of an inherited field, is a field declared in this body
    out.push(vec![
        base.clone(),
        Item::Class {
            doc: vec![],
            blank: false,
            name: "C".into(),
            targs: vec![],
            parents: vec![CRef::with("P", vec![int(1)])],
            body: Some(vec![field(Ty::Int, "f", Some(int(2)), &[], false), field(Ty::Int, "own", Some(int(1)), &[], false)]),
        },
        Item::Def {
            doc: vec![],
            blank: false,
            name: Some("d".into()),
            parents: vec![CRef::plain("C")],
            body: Some(vec![field(Ty::Int, "f", Some(int(3)), &[], false), field(Ty::List(Box::new(Ty::Int)), "g", Some(E::List(vec![int(1)])), &[], false), field(Ty::Int, "own", Some(int(4)), &[], false)]),
        },
    ]);
    // a field overridden through lets of some of its bits only is overridden in that body
    out.push(vec![
        base.clone(),
        Item::Class { doc: vec![], blank: false, name: "PB".into(), targs: vec![], parents: vec![], body: Some(vec![field(Ty::Bits(8), "enc", Some(int(0)), &[], false), field(Ty::Int, "size", Some(int(1)), &[], false)]) },
        Item::Def { doc: vec![], blank: false, name: Some("d".into()), parents: vec![CRef::plain("PB")], body: Some(vec![BI::Let { name: "enc{3-0}".into(), value: int(5) }, BI::Let { name: "size".into(), value: int(2) }]) },
        Item::Class { doc: vec![], blank: false, name: "C".into(), targs: vec![], parents: vec![CRef::plain("PB")], body: Some(vec![BI::Let { name: "enc{7}".into(), value: int(1) }]) },
    ]);
    // several parents: an override of a field of each of them is a child
    {
        let cls = |n: &str, fld: &str| Item::Class { doc: vec![], blank: false, name: n.into(), targs: vec![], parents: vec![], body: Some(vec![field(Ty::Int, fld, Some(int(0)), &[], false)]) };
        out.push(vec![
            base.clone(),
            cls("PA", "fa"),
            cls("PB", "fb"),
            cls("PC", "fc"),
            Item::Def {
                doc: vec![],
                blank: false,
                name: Some("d".into()),
                parents: vec![CRef::plain("PA"), CRef::plain("PB"), CRef::plain("PC")],
                body: Some(vec![BI::Let { name: "fa".into(), value: int(1) }, BI::Let { name: "fb".into(), value: int(2) }, BI::Let { name: "fc".into(), value: int(3) }]),
            },
            Item::Class {
                doc: vec![],
                blank: false,
                name: "C".into(),
                targs: vec![TArg { ty: Ty::Int, name: "t0".into(), default: None }],
                parents: vec![CRef::plain("PA"), CRef::plain("PB")],
                body: Some(vec![BI::Let { name: "fb".into(), value: id("t0") }]),
            },
        ]);
    }
    // an if / else-if / else chain with a declaration in every branch
    {
        let pd = |n: &str, a: i64| Item::Def { doc: vec![], blank: false, name: Some(n.into()), parents: vec![CRef::with("P", vec![int(a)])], body: None };
        out.push(vec![
            base.clone(),
            Item::If {
                cond: E::Bool(false),
                then: vec![pd("zero", 0)],
                then_braces: true,
                els: Some(vec![Item::If { cond: E::Bool(false), then: vec![pd("one", 1)], then_braces: true, els: Some(vec![Item::If { cond: E::Bool(true), then: vec![pd("two", 2)], then_braces: true, els: Some(vec![pd("many", 3)]) }]) }]),
            },
            pd("tail", 4),
        ]);
    }
    // the same name declared more than once: every declaration is an entry of the outline
    let pdef = |n: &str, a: i64| Item::Def { doc: vec![], blank: false, name: Some(n.into()), parents: vec![CRef::with("P", vec![int(a)])], body: None };
    out.push(vec![
        base.clone(),
        Item::Multiclass { doc: vec![], name: "M1".into(), targs: vec![], parents: vec![], body: vec![pdef("rr", 1), pdef("ri", 2)] },
        Item::Multiclass { doc: vec![], name: "M2".into(), targs: vec![], parents: vec![], body: vec![pdef("rr", 3), pdef("ri", 4)] },
    ]);
    out.push(vec![base.clone(), Item::If { cond: E::Bool(true), then: vec![pdef("Reg", 1)], then_braces: true, els: Some(vec![pdef("Reg", 2)]) }, pdef("after", 3)]);
    out.push(vec![
        base.clone(),
        Item::Class { doc: vec![], blank: false, name: "Fwd".into(), targs: vec![], parents: vec![], body: None },
        Item::Class { doc: vec![], blank: false, name: "Fwd".into(), targs: vec![TArg { ty: Ty::Int, name: "a".into(), default: None }], parents: vec![], body: Some(vec![field(Ty::Int, "f", Some(id("a")), &[], false)]) },
        pdef("after", 3),
    ]);
    // defsets: empty, with named and anonymous defs, with a class, nested
    let d = |n: &str| Item::Def { doc: vec![], blank: false, name: Some(n.into()), parents: vec![CRef::with("P", vec![int(1)])], body: None };
    let anon = Item::Def { doc: vec![], blank: false, name: None, parents: vec![CRef::with("P", vec![int(2)])], body: None };
    let set = |name: &str, body: Vec<Item>| Item::Defset { ty: Ty::List(Box::new(Ty::Class("P".into()))), name: name.into(), body };
    out.push(vec![base.clone(), set("S", vec![])]);
    out.push(vec![base.clone(), set("S", vec![d("m1"), d("m2")])]);
    out.push(vec![base.clone(), set("S", vec![d("m1"), anon.clone()])]);
    out.push(vec![base.clone(), set("S", vec![d("m1"), set("T", vec![d("m2")]), d("m3")])]);
    out.push(vec![base.clone(), set("S", vec![Item::Foreach { var: "i".into(), list: E::List(vec![int(1)]), body: vec![d("m1")], braces: true }, d("m2")]), d("after")]);
    out.push(vec![base.clone(), set("S", vec![Item::Class { doc: vec![], blank: false, name: "Inner".into(), targs: vec![], parents: vec![], body: None }, d("m1")])]);
    // multiclasses and defm
    for targs in 0..3usize {
        for parent in [false, true] {
            let t: Vec<TArg> = (0..targs).map(|i| TArg { ty: Ty::Int, name: format!("mt{i}"), default: None }).collect();
            let mut items = vec![base.clone()];
            if parent {
                items.push(Item::Multiclass { doc: vec![], name: "MP".into(), targs: vec![], parents: vec![], body: vec![d("_p")] });
            }
            items.push(Item::Multiclass {
                doc: vec![],
                name: "M".into(),
                targs: t,
                parents: if parent { vec![CRef::plain("MP")] } else { vec![] },
                body: vec![d("_a"), Item::Defm { name: Some("_b".into()), parents: vec![] }, Item::Foreach { var: "i".into(), list: E::List(vec![int(1)]), body: vec![d("_c")], braces: true }],
            });
            items.push(Item::Defm { name: Some("inst".into()), parents: vec![CRef::with("M", (0..targs).map(|i| int(i as i64)).collect())] });
            items.push(Item::Defm { name: None, parents: vec![CRef::with("M", (0..targs).map(|i| int(i as i64)).collect())] });
            out.push(items);
        }
    }
    out
}

/// Wraps `inner` into the block-bearing statement kind `k` (0 = none).
pub const WRAP_KINDS: usize = 8;
pub fn wrap_block(k: usize, inner: Vec<Item>) -> Vec<Item> {
    let first = |v: &Vec<Item>| v.first().cloned().into_iter().collect::<Vec<_>>();
    match k {
        0 => inner,
        1 => vec![Item::Foreach { var: "i".into(), list: E::List(vec![int(1)]), body: inner, braces: true }],
        2 => {
            let one = first(&inner);
            let mut v = vec![Item::Foreach { var: "i".into(), list: E::List(vec![int(1)]), body: one, braces: false }];
            v.extend(inner.into_iter().skip(1));
            v
        }
        3 => vec![Item::Let { binds: vec![("f".into(), int(1)), ("f".into(), int(2))], body: inner, braces: true }],
        4 => {
            let one = first(&inner);
            let mut v = vec![Item::Let { binds: vec![("f".into(), int(1))], body: one, braces: false }];
            v.extend(inner.into_iter().skip(1));
            v
        }
        5 => vec![Item::If { cond: E::Bool(true), then: inner, then_braces: true, els: None }],
        6 => vec![Item::If { cond: E::Bool(false), then: vec![Item::Assert { cond: E::Bool(true), msg: E::Str("t".into()) }], then_braces: true, els: Some(inner) }],
        _ => {
            // no else here: after a brace-less `then` holding another `if`, an else would bind to the inner one
            let one = first(&inner);
            let mut v = vec![Item::If { cond: E::Bool(true), then: one, then_braces: false, els: None }];
            v.extend(inner.into_iter().skip(1));
            v
        }
    }
}

fn contains_toplevel_only(items: &[Item]) -> bool {
    // multiclasses (and the class the variants depend on) stay at the top level
    items.iter().any(|i| matches!(i, Item::Multiclass { .. }))
}

/// Declaration-structure programs: every declaration variant inside every
/// wrapper path of length <= depth, one- and two-file layouts.
pub fn structure_programs(depth: usize, mut f: impl FnMut(&Program) -> bool) {
    let variants = declaration_variants();
    let mut paths: Vec<Vec<usize>> = vec![vec![]];
    let mut frontier: Vec<Vec<usize>> = vec![vec![]];
    for _ in 0..depth {
        let mut next = Vec::new();
        for p in &frontier {
            for k in 1..WRAP_KINDS {
                let mut q = p.clone();
                q.push(k);
                next.push(q);
            }
        }
        paths.extend(next.iter().cloned());
        frontier = next;
    }
    for v in &variants {
        // the first item (class P) stays at the top; the rest is wrapped
        let (head, tail) = v.split_at(1);
        for path in &paths {
            if !path.is_empty() && contains_toplevel_only(tail) {
                continue;
            }
            let mut body: Vec<Item> = tail.to_vec();
            for &k in path.iter().rev() {
                body = wrap_block(k, body);
            }
            for layout in 0..2 {
                let p = if layout == 0 {
                    // conditional regions between and after the statements: a statement ends at its last token,
                    // whatever directive follows it
                    let mut all = head.to_vec();
                    all.push(Item::Raw("#ifdef NEVER\nclass Dead { int x; }\n#endif".into()));
                    all.extend(body.clone());
                    all.push(Item::Raw("#ifndef NEVER\n#define SEEN".into()));
                    all.push(Item::Def { doc: vec![], blank: false, name: Some("last".into()), parents: vec![], body: Some(vec![field(Ty::Int, "own", Some(int(1)), &[], false)]) });
                    all.push(Item::Raw("#endif // NEVER".into()));
                    Program { files: vec![("a.td".into(), all)] }
                } else {
                    let mut root = vec![Item::Include("inc.td".into())];
                    root.extend(body.clone());
                    // (the included file carries an include guard)
                    let mut inc = vec![Item::Raw("#ifndef INC_TD\n#define INC_TD".into())];
                    inc.extend(head.to_vec());
                    inc.push(Item::Def { doc: vec![], blank: false, name: Some("inc_def".into()), parents: vec![], body: None });
                    inc.push(Item::Raw("#endif".into()));
                    Program { files: vec![("a.td".into(), root), ("inc.td".into(), inc)] }
                };
                if !f(&p) {
                    return;
                }
            }
        }
    }
}

// ---------------------------------------------------------------------------
// hover / inlay-hint programs (C19)

fn docs(n: usize) -> Vec<String> {
    (0..n).map(|i| format!("doc line {i} of it")).collect()
}

/// Programs with doc comments (0..=2 lines, attached or detached by a blank line, with and without a banner comment above a blank line above them) on every
/// declaration kind that can carry them, class references with 0..=3 positional arguments
/// followed by 0..=1 named ones in every reference position, and field overrides.
pub fn hover_programs(mut f: impl FnMut(&Program) -> bool) {
    // (comment lines, blank line before the declaration); an empty line is a blank line inside the run:
    // what is above it is a banner, not documentation
    let mut shapes: Vec<(Vec<String>, bool)> = Vec::new();
    for doc_lines in 0..3usize {
        for blank in [false, true] {
            if !(blank && doc_lines == 0) {
                shapes.push((docs(doc_lines), blank));
            }
        }
    }
    let banner = |n: usize, below: usize, blank: bool| -> (Vec<String>, bool) {
        let mut v: Vec<String> = (0..n).map(|i| format!("banner {i}")).collect();
        v.push(String::new());
        v.extend(docs(below));
        (v, blank)
    };
    shapes.push(banner(1, 1, false));
    shapes.push(banner(2, 2, false));
    shapes.push(banner(1, 0, false));
    shapes.push(banner(1, 1, true));
    for (shape_doc, blank) in shapes {
        {
            for positional in 0..4usize {
                for named in 0..2usize {
                    if positional + named > 3 {
                        continue;
                    }
                    let d = shape_doc.clone();
                    let p = Item::Class {
                        doc: d.clone(),
                        blank,
                        name: "P".into(),
                        targs: vec![
                            TArg { ty: Ty::Int, name: "a".into(), default: Some(int(0)) },
                            TArg { ty: Ty::Str, name: "b".into(), default: Some(E::Str("d".into())) },
                            TArg { ty: Ty::Bits(2), name: "c".into(), default: Some(E::Bits(vec![int(0), int(1)])) },
                        ],
                        parents: vec![],
                        body: Some(vec![
                            BI::Field { doc: d.clone(), blank, ty: Ty::Int, name: "f".into(), init: Some(id("a")) },
                            BI::Field { doc: vec![], blank: false, ty: Ty::List(Box::new(Ty::Str)), name: "g".into(), init: Some(E::List(vec![id("b")])) },
                            BI::Field { doc: docs(1), blank: false, ty: Ty::Bits(2), name: "h".into(), init: Some(id("c")) },
                            // a name of several characters: a request range can end inside it
                            BI::Field { doc: vec![], blank: false, ty: Ty::Int, name: "width".into(), init: Some(int(1)) },
                        ]),
                    };
                    let all_args = [int(1), E::Str("s".into()), E::Bits(vec![int(1), int(0)])];
                    let names = ["a", "b", "c"];
                    let args: Vec<E> = all_args[..positional].to_vec();
                    let named_args: Vec<(String, E)> = (0..named).map(|k| (names[positional + k].to_string(), all_args[positional + k].clone())).collect();
                    let cref = CRef { name: "P".into(), args: args.clone(), named: named_args.clone() };
                    let items = vec![
                        p,
                        Item::Class {
                            doc: vec![],
                            blank: false,
                            name: "Q".into(),
                            targs: vec![TArg { ty: Ty::Class("P".into()), name: "pp".into(), default: None }],
                            parents: vec![cref.clone()],
                            body: Some(vec![
                                BI::Let { name: "f".into(), value: int(5) },
                                BI::Field { doc: vec![], blank: false, ty: Ty::Class("P".into()), name: "inner".into(), init: Some(E::ClassVal("P".into(), args.clone(), named_args.clone())) },
                                BI::Field { doc: vec![], blank: false, ty: Ty::Int, name: "viaf".into(), init: Some(E::Field(Box::new(id("pp")), "f".into())) },
                                BI::Let { name: "g".into(), value: E::List(vec![]) },
                            ]),
                        },
                        Item::Def { doc: d.clone(), blank, name: Some("x".into()), parents: vec![cref.clone()], body: Some(vec![BI::Let { name: "h".into(), value: E::Bits(vec![int(1), int(1)]) }, BI::Let { name: "width".into(), value: int(3) }]) },
                        Item::Multiclass {
                            doc: d.clone(),
                            name: "M".into(),
                            targs: vec![TArg { ty: Ty::Int, name: "m".into(), default: None }],
                            parents: vec![],
                            body: vec![Item::Def { doc: vec![], blank: false, name: Some("_r".into()), parents: vec![CRef::with("P", vec![id("m")])], body: None }],
                        },
                        Item::Defm { name: Some("inst".into()), parents: vec![CRef::with("M", vec![int(1)])] },
                        Item::Defset { ty: Ty::List(Box::new(Ty::Class("P".into()))), name: "S".into(), body: vec![Item::Def { doc: docs(1), blank: false, name: Some("member".into()), parents: vec![cref.clone()], body: None }] },
                        Item::Defvar { name: "v".into(), value: E::ClassVal("Q".into(), vec![E::ClassVal("P".into(), args.clone(), named_args.clone())], vec![]) },
                        Item::Foreach { var: "i".into(), list: E::List(vec![int(1)]), body: vec![Item::Def { doc: vec![], blank: false, name: Some("y".into()), parents: vec![CRef::with("P", vec![id("i")])], body: None }], braces: true },
                        Item::Defvar { name: "w".into(), value: E::Field(Box::new(id("x")), "h".into()) },
                        // a class that is declared before it is defined: references to it are hinted with the definition's parameters
                        Item::Class { doc: vec![], blank: false, name: "FwdH".into(), targs: vec![], parents: vec![], body: None },
                        Item::Class { doc: vec![], blank: false, name: "FwdH".into(), targs: vec![TArg { ty: Ty::Int, name: "fa".into(), default: None }, TArg { ty: Ty::Str, name: "fb".into(), default: None }], parents: vec![], body: None },
                        Item::Def { doc: vec![], blank: false, name: Some("fh".into()), parents: vec![CRef::with("FwdH", vec![int(1), E::Str("s".into())])], body: None },
                        Item::Class { doc: vec![], blank: false, name: "R".into(), targs: vec![TArg { ty: Ty::Class("P".into()), name: "rp".into(), default: None }, TArg { ty: Ty::Int, name: "ry".into(), default: None }], parents: vec![], body: None },
                        Item::Def { doc: vec![], blank: false, name: Some("r".into()), parents: vec![CRef::with("R", vec![E::ClassVal("P".into(), args.clone(), named_args.clone()), int(5)])], body: None },
                        Item::Class { doc: vec![], blank: false, name: "R2".into(), targs: vec![TArg { ty: Ty::Int, name: "ra".into(), default: None }, TArg { ty: Ty::Int, name: "rb".into(), default: Some(int(0)) }], parents: vec![], body: None },
                        Item::Def { doc: vec![], blank: false, name: Some("r2".into()), parents: vec![CRef::with("R2", vec![E::Bang("!add".into(), None, vec![E::Field(Box::new(E::ClassVal("P".into(), vec![int(1), E::Str("s".into())], vec![])), "f".into()), int(1)])])], body: None },
                        Item::Defvar { name: "u".into(), value: E::List(vec![id("v"), id("S")]) },
                        // some bits of an inherited field overridden on the way down: the field keeps its declared type
                        Item::Class { doc: vec![], blank: false, name: "R8".into(), targs: vec![], parents: vec![], body: Some(vec![field(Ty::Bits(8), "enc", Some(int(0)), &[], false)]) },
                        Item::Class { doc: vec![], blank: false, name: "Mid8".into(), targs: vec![], parents: vec![CRef::plain("R8")], body: Some(vec![BI::Let { name: "enc{3-0}".into(), value: int(5) }]) },
                        Item::Class { doc: vec![], blank: false, name: "Leaf8".into(), targs: vec![], parents: vec![CRef::plain("Mid8")], body: Some(vec![BI::Let { name: "enc".into(), value: int(1) }]) },
                        Item::Def { doc: vec![], blank: false, name: Some("d8".into()), parents: vec![CRef::plain("Mid8")], body: Some(vec![BI::Let { name: "enc{7}".into(), value: int(1) }]) },
                        Item::Def { doc: vec![], blank: false, name: Some("e8".into()), parents: vec![CRef::plain("Leaf8")], body: Some(vec![BI::Let { name: "enc".into(), value: int(2) }, field(Ty::Bits(8), "viaf", Some(E::Field(Box::new(id("d8")), "enc".into())), &[], false)]) },
                    ];
                    for layout in 0..2 {
                        let prog = if layout == 0 {
                            Program { files: vec![("a.td".into(), items.clone())] }
                        } else {
                            let mut root = vec![Item::Include("inc.td".into())];
                            root.extend(items[1..].iter().cloned());
                            Program { files: vec![("a.td".into(), root), ("inc.td".into(), vec![items[0].clone()])] }
                        };
                        if !f(&prog) {
                            return;
                        }
                    }
                }
            }
        }
    }
}
