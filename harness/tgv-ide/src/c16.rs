//! C16 — include graphs: termination, exact reachability, links, single indexing.
//!
//! Every directed graph (self-loops included) on n files x every root, plus
//! missing-target and search-path variants, against a reference resolver.

use std::collections::{BTreeMap, BTreeSet, VecDeque};

use ide::handlers::document_symbol::DocumentSymbolKind;
use syntax::verif;
use tgv_core::{guard, guard_on_stack, json, Ctx, Engine, Failure, Tier, Value};

use crate::c03::STACK;
use crate::ws::Ws;

pub struct C16;

const FUEL: u64 = 20_000;
const INCDIR: &str = "/incdir";

#[derive(Debug, Clone, PartialEq, Eq)]
pub struct Graph {
    pub n: usize,
    /// adjacency: bit j of edges[i] = file i includes file j
    pub edges: Vec<u32>,
    pub root: usize,
    /// class declaration before (true) or after (false) the include statements
    pub class_first: bool,
    /// file that additionally includes "missing.td"
    pub missing_in: Option<usize>,
    /// file that lives only in the INCLUDE_DIR directory
    pub incdir_file: Option<usize>,
    /// file that writes its first include statement a second time (a multi-edge)
    pub repeat_in: Option<usize>,
    /// file that spells the path of its first include with a detour (`sub/../fN.td`): the same file
    pub dotdot_in: Option<usize>,
    /// file of which the INCLUDE_DIR directory holds another file of the same name: the including file's own
    /// directory is searched first, so the other one is never part of the workspace
    pub shadow_of: Option<usize>,
    /// file that spells the path of its first include as an absolute path
    pub absolute_in: Option<usize>,
}

impl Graph {
    fn to_json(&self) -> Value {
        json!({
            "n": self.n, "edges": self.edges, "root": self.root, "class_first": self.class_first,
            "missing_in": self.missing_in, "incdir_file": self.incdir_file, "repeat_in": self.repeat_in, "dotdot_in": self.dotdot_in, "shadow_of": self.shadow_of, "absolute_in": self.absolute_in, "witness": self.witness(),
        })
    }

    fn from_json(v: &Value) -> Graph {
        Graph {
            n: v["n"].as_u64().unwrap_or(1) as usize,
            edges: v["edges"].as_array().map(|a| a.iter().map(|x| x.as_u64().unwrap_or(0) as u32).collect()).unwrap_or_default(),
            root: v["root"].as_u64().unwrap_or(0) as usize,
            class_first: v["class_first"].as_bool().unwrap_or(false),
            missing_in: v["missing_in"].as_u64().map(|x| x as usize),
            incdir_file: v["incdir_file"].as_u64().map(|x| x as usize),
            repeat_in: v["repeat_in"].as_u64().map(|x| x as usize),
            dotdot_in: v["dotdot_in"].as_u64().map(|x| x as usize),
            shadow_of: v["shadow_of"].as_u64().map(|x| x as usize),
            absolute_in: v["absolute_in"].as_u64().map(|x| x as usize),
        }
    }

    pub fn witness(&self) -> String {
        let mut parts = Vec::new();
        for i in 0..self.n {
            let outs: Vec<String> = (0..self.n).filter(|j| self.edges[i] >> j & 1 == 1).map(|j| format!("f{j}")).collect();
            let mut s = format!("f{i}->[{}]", outs.join(","));
            if self.missing_in == Some(i) {
                s.push_str("+missing");
            }
            if self.incdir_file == Some(i) {
                s.push_str("@incdir");
            }
            if self.repeat_in == Some(i) {
                s.push_str("+first-include-repeated");
            }
            if self.dotdot_in == Some(i) {
                s.push_str("+first-include-through-dotdot");
            }
            if self.shadow_of == Some(i) {
                s.push_str("+same-name-in-incdir");
            }
            if self.absolute_in == Some(i) {
                s.push_str("+first-include-by-absolute-path");
            }
            parts.push(s);
        }
        format!("root=f{} {}{}", self.root, parts.join(" "), if self.class_first { " class-first" } else { "" })
    }

    fn dir_of(&self, i: usize) -> &'static str {
        if self.incdir_file == Some(i) {
            INCDIR
        } else {
            "/ws"
        }
    }

    fn path_of(&self, i: usize) -> String {
        format!("{}/f{i}.td", self.dir_of(i))
    }

    /// (text, include statements as (statement range, string-literal range, included name))
    fn render(&self, i: usize) -> (String, Vec<((usize, usize), (usize, usize), String)>) {
        let mut text = String::new();
        let mut incs = Vec::new();
        if self.class_first {
            text.push_str(&format!("class C{i};\n"));
        }
        let mut names: Vec<String> = (0..self.n).filter(|j| self.edges[i] >> j & 1 == 1).map(|j| format!("f{j}.td")).collect();
        if self.repeat_in == Some(i) {
            if let Some(first) = names.first().cloned() {
                names.push(first);
            }
        }
        if self.dotdot_in == Some(i) {
            if let Some(first) = names.first_mut() {
                *first = format!("sub/../{first}");
            }
        }
        if self.absolute_in == Some(i) {
            if let Some(j) = (0..self.n).find(|j| self.edges[i] >> j & 1 == 1) {
                names[0] = self.path_of(j);
            }
        }
        if self.missing_in == Some(i) {
            names.push("missing.td".to_string());
        }
        for name in names {
            let s = text.len();
            text.push_str("include ");
            let ls = text.len();
            text.push_str(&format!("\"{name}\""));
            let le = text.len();
            incs.push(((s, le), (ls, le), name));
            text.push('\n');
        }
        if !self.class_first {
            text.push_str(&format!("class C{i};\n"));
        }
        (text, incs)
    }

    fn files(&self) -> Vec<(String, String)> {
        let mut v: Vec<(String, String)> = (0..self.n).map(|i| (self.path_of(i), self.render(i).0)).collect();
        if let Some(i) = self.shadow_of {
            v.push((format!("{INCDIR}/f{i}.td"), format!("class Shadow{i};\n")));
        }
        v
    }

    fn shrink(&self) -> Vec<Graph> {
        let mut out = Vec::new();
        if self.missing_in.is_some() {
            out.push(Graph { missing_in: None, ..self.clone() });
        }
        if self.incdir_file.is_some() {
            out.push(Graph { incdir_file: None, ..self.clone() });
        }
        if self.repeat_in.is_some() {
            out.push(Graph { repeat_in: None, ..self.clone() });
        }
        if self.shadow_of.is_some() {
            out.push(Graph { shadow_of: None, ..self.clone() });
        }
        if self.absolute_in.is_some() {
            out.push(Graph { absolute_in: None, ..self.clone() });
        }
        if self.dotdot_in.is_some() {
            out.push(Graph { dotdot_in: None, ..self.clone() });
        }
        if self.class_first {
            out.push(Graph { class_first: false, ..self.clone() });
        }
        // drop the last file when nothing refers to it
        if self.n > 1 && self.root != self.n - 1 && self.missing_in != Some(self.n - 1) && self.incdir_file != Some(self.n - 1) && self.repeat_in != Some(self.n - 1) && self.dotdot_in != Some(self.n - 1) && self.shadow_of != Some(self.n - 1) && self.absolute_in != Some(self.n - 1) {
            let mask = !(1u32 << (self.n - 1));
            let mut g = self.clone();
            g.n -= 1;
            g.edges.truncate(g.n);
            for e in g.edges.iter_mut() {
                *e &= mask;
            }
            out.push(g);
        }
        for i in 0..self.n {
            for j in 0..self.n {
                if self.edges[i] >> j & 1 == 1 {
                    let mut g = self.clone();
                    g.edges[i] &= !(1 << j);
                    out.push(g);
                }
            }
        }
        out
    }
}

/// `.` and `..` resolved lexically.
fn normalize(path: &str) -> String {
    let mut parts: Vec<&str> = Vec::new();
    for c in path.split('/') {
        match c {
            "." => {}
            ".." => {
                parts.pop();
            }
            c => parts.push(c),
        }
    }
    parts.join("/")
}

/// Reference include resolution: the including file's directory first, then INCLUDE_DIR.
fn resolve(existing: &BTreeSet<String>, from_dir: &str, name: &str, incdir: Option<&str>) -> Option<String> {
    let mut dirs = vec![from_dir.to_string()];
    if let Some(d) = incdir {
        dirs.push(d.to_string());
    }
    // an absolute path names its file whatever the directory it is looked up from
    dirs.into_iter().map(|d| if name.starts_with('/') { normalize(name) } else { normalize(&format!("{d}/{name}")) }).find(|p| existing.contains(p))
}

pub fn eval_graph(g: &Graph) -> Vec<Failure> {
    let files = g.files();
    let existing: BTreeSet<String> = files.iter().map(|(p, _)| p.clone()).collect();
    let incdir = g.incdir_file.or(g.shadow_of).map(|_| INCDIR);
    match incdir {
        Some(d) => std::env::set_var("INCLUDE_DIR", d),
        None => std::env::remove_var("INCLUDE_DIR"),
    }
    // reference: reachability over resolvable edges
    let idx_of: BTreeMap<String, usize> = (0..g.n).map(|i| (g.path_of(i), i)).collect();
    let mut reach: BTreeSet<usize> = BTreeSet::new();
    let mut queue = VecDeque::from([g.root]);
    while let Some(i) = queue.pop_front() {
        if !reach.insert(i) {
            continue;
        }
        for (_, _, name) in g.render(i).1 {
            if let Some(p) = resolve(&existing, g.dir_of(i), &name, incdir) {
                queue.push_back(idx_of[&p]);
            }
        }
    }

    let fail = |clause: &str, detail: String| Failure::new(clause, g.witness(), detail, g.to_json());
    let mut out = Vec::new();

    verif::arm(Some(FUEL));
    let r = guard(|| {
        let ws = Ws::new(&files, &g.path_of(g.root));
        let a = ws.analysis();
        let diags = a.diagnostics();
        let mut problems: Vec<(&'static str, String)> = Vec::new();

        // workspace == reachable set
        let got: BTreeSet<String> = diags.keys().map(|f| ws.fs.path_of(*f)).collect();
        let want: BTreeSet<String> = reach.iter().map(|&i| g.path_of(i)).collect();
        if got != want {
            problems.push(("workspace-set", format!("workspace files {got:?}, reachable through resolvable includes {want:?}")));
        }
        for &i in &reach {
            let path = g.path_of(i);
            let Some(fid) = ws.fs.lookup(&path) else {
                problems.push(("workspace-set", format!("{path} has no file id")));
                continue;
            };
            let (_, incs) = g.render(i);
            // links
            let links = a.document_link(fid).unwrap_or_default();
            let got_links: Vec<((usize, usize), String)> = links
                .iter()
                .map(|l| ((usize::from(l.range.start()), usize::from(l.range.end())), ws.fs.path_of(l.target)))
                .collect();
            let want_links: Vec<((usize, usize), String)> = incs
                .iter()
                .filter_map(|(_, lit, name)| resolve(&existing, g.dir_of(i), name, incdir).map(|p| (*lit, p)))
                .collect();
            if got_links != want_links {
                problems.push(("links", format!("{path}: links {got_links:?}, expected {want_links:?}")));
            }
            // not-found diagnostics on unresolvable statements
            let file_diags = diags.get(&fid).cloned().unwrap_or_default();
            for (stmt, _, name) in &incs {
                if resolve(&existing, g.dir_of(i), name, incdir).is_some() {
                    if let Some(d) = file_diags.iter().find(|d| {
                        let (s, e) = (usize::from(d.location.range.start()), usize::from(d.location.range.end()));
                        s < stmt.1 && e > stmt.0 && d.message.contains("not found")
                    }) {
                        problems.push(("resolvable-include-reported", format!("{path}: include \"{name}\" at {stmt:?} resolves but is reported: {:?}", d.message)));
                    }
                }
                if resolve(&existing, g.dir_of(i), name, incdir).is_none() {
                    let hit = file_diags.iter().any(|d| {
                        let (s, e) = (usize::from(d.location.range.start()), usize::from(d.location.range.end()));
                        s < stmt.1 && e > stmt.0 && d.message.contains("not found")
                    });
                    if !hit {
                        problems.push(("unresolved-include-diagnostic", format!("{path}: include \"{name}\" at {stmt:?} does not resolve but has no 'not found' diagnostic; diagnostics: {file_diags:?}")));
                    }
                }
            }
            // single indexing
            let classes: Vec<String> = a
                .document_symbol(fid)
                .unwrap_or_default()
                .into_iter()
                .filter(|s| matches!(s.kind, DocumentSymbolKind::Class))
                .map(|s| s.name.to_string())
                .collect();
            if classes != vec![format!("C{i}")] {
                problems.push(("single-indexing", format!("{path}: document symbols list classes {classes:?}, expected exactly [\"C{i}\"]")));
            }
        }
        problems
    });
    verif::arm(None);
    match r {
        Ok(problems) => {
            for (c, d) in problems {
                out.push(fail(c, d));
            }
        }
        Err(p) if p.is_fuel() => out.push(fail("non-termination", format!("{} include-walk/parser ticks exhausted while selecting the root or indexing", FUEL))),
        Err(p) => out.push(fail("panic", format!("{} at {}", p.message, p.location))),
    }
    out
}

fn for_each_graph(tier: Tier, ctx: &mut Ctx, mut f: impl FnMut(&mut Ctx, &Graph) -> bool) {
    for n in 1..=5usize {
        let max_out = match (tier, n) {
            (_, 1..=4) => n,
            (Tier::Quick, _) => 1,
            (Tier::Thorough, _) => 2,
        };
        // per-node adjacency choices with bounded out-degree
        let choices: Vec<u32> = (0u32..(1 << n)).filter(|m| m.count_ones() as usize <= max_out).collect();
        let k = choices.len() as u64;
        let total = k.pow(n as u32);
        let mut idx = 0u64;
        while idx < total {
            let my = ctx.mine();
            let this = idx;
            idx += 1;
            if !my {
                continue;
            }
            let mut edges = Vec::with_capacity(n);
            let mut x = this;
            for _ in 0..n {
                edges.push(choices[(x % k) as usize]);
                x /= k;
            }
            for root in 0..n {
                let layouts: &[bool] = if n <= 3 { &[false, true] } else { &[false] };
                for &class_first in layouts {
                    let base = Graph { n, edges: edges.clone(), root, class_first, missing_in: None, incdir_file: None, repeat_in: None, dotdot_in: None, shadow_of: None, absolute_in: None };
                    if !f(ctx, &base) {
                        return;
                    }
                    if n <= 3 {
                        for v in 0..n {
                            if !f(ctx, &Graph { missing_in: Some(v), ..base.clone() }) {
                                return;
                            }
                            // an included file whose name also exists in the INCLUDE_DIR directory
                            if v != root && (0..n).any(|u| edges[u] >> v & 1 == 1) && !f(ctx, &Graph { shadow_of: Some(v), ..base.clone() }) {
                                return;
                            }
                            if v != root && !f(ctx, &Graph { incdir_file: Some(v), ..base.clone() }) {
                                return;
                            }
                            if edges[v] != 0 && !f(ctx, &Graph { repeat_in: Some(v), ..base.clone() }) {
                                return;
                            }
                            if edges[v] != 0 && !f(ctx, &Graph { absolute_in: Some(v), ..base.clone() }) {
                                return;
                            }
                            if edges[v] != 0 && !f(ctx, &Graph { dotdot_in: Some(v), ..base.clone() }) {
                                return;
                            }
                            if edges[v] != 0 && !f(ctx, &Graph { dotdot_in: Some(v), repeat_in: Some(v), ..base.clone() }) {
                                return;
                            }
                        }
                    }
                }
            }
        }
    }
}

impl Engine for C16 {
    fn id(&self) -> &'static str {
        "C16"
    }

    fn rule(&self, tier: Tier) -> String {
        format!(
            "every directed graph with self-loops on n files x every root: all edge sets for n <= 4 (n <= 3: both declaration orders), n = 5 with out-degree <= {}; \
             for n <= 3 additionally one file including a missing target, one non-root file present only under INCLUDE_DIR, one included file whose name also names another file under INCLUDE_DIR (the own directory wins), one file writing its first include statement twice (a multi-edge), one file spelling its first include as an absolute path, one file spelling its first include through `sub/../` (the same file under another spelling), and both together. \
             non-trivial = the graph has a cycle, a diamond or an unresolvable include; graphs are distinct by construction.",
            tier.pick(1, 2)
        )
    }

    fn assumptions(&self) -> Vec<String> {
        vec![
            "termination decided by fuel (hook H2: one tick per collect_sources iteration and per Include::index) with a 2 MiB stack; a stack overflow is attributed through the trace file".into(),
            "reference resolution: including file's directory, then INCLUDE_DIR; INCLUDE_DIR is set per case inside the worker process".into(),
        ]
    }

    fn trace_always(&self) -> bool {
        true
    }

    fn explore(&self, tier: Tier, ctx: &mut Ctx) {
        let r = guard_on_stack(STACK, || {
            for_each_graph(tier, ctx, |ctx, g| {
                ctx.trace(|| g.to_json());
                let fails = eval_graph(g);
                // non-trivial: cycle, diamond (some file reachable along two paths) or unresolvable include
                let nontrivial = g.missing_in.is_some() || g.incdir_file.is_some() || g.shadow_of.is_some() || has_cycle_or_diamond(g);
                ctx.case(nontrivial);
                if nontrivial {
                    ctx.sample(|| json!({ "graph": g.witness() }));
                }
                for f in fails {
                    ctx.fail(f);
                }
                !ctx.expired()
            });
        });
        std::env::remove_var("INCLUDE_DIR");
        if let Err(p) = r {
            panic!("harness panic: {} at {}", p.message, p.location);
        }
    }

    fn eval_case(&self, case: &Value) -> Vec<Failure> {
        let g = Graph::from_json(case);
        let r = guard_on_stack(STACK, || eval_graph(&g)).unwrap_or_default();
        std::env::remove_var("INCLUDE_DIR");
        r
    }

    fn shrink(&self, case: &Value, _clause: &str) -> Vec<Value> {
        Graph::from_json(case).shrink().into_iter().map(|g| g.to_json()).collect()
    }
}

fn has_cycle_or_diamond(g: &Graph) -> bool {
    // count walks from root reaching each node: > 1 incoming along distinct paths, or revisiting
    let mut indeg = vec![0u32; g.n];
    let mut seen = vec![false; g.n];
    let mut stack = vec![g.root];
    while let Some(i) = stack.pop() {
        if seen[i] {
            continue;
        }
        seen[i] = true;
        for j in 0..g.n {
            if g.edges[i] >> j & 1 == 1 {
                indeg[j] += 1;
                stack.push(j);
            }
        }
    }
    indeg.iter().any(|&d| d > 1) || indeg[g.root] > 0
}
