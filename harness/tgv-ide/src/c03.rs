//! C03 — analysis totality: every IDE query answers on every workspace state.

use syntax::verif;
use tgv_core::{guard, guard_on_stack, json, Ctx, Engine, Failure, Tier, Value};

use crate::queries::{run_all, Cursor, NoObs, Plan};
use crate::ws::Ws;
use crate::wspace::{for_each_workspace, WsCase};

pub struct C03;

pub const STACK: usize = 2 * 1024 * 1024;
const FUEL: u64 = 50_000_000;

pub fn plan_for(case: &WsCase, tier: Tier) -> Plan {
    match (tier, case.focus) {
        (Tier::Quick, Some(focus)) => Plan::Around { focus, radius: 40 },
        _ => Plan::Full,
    }
}

pub fn eval_ws(case: &WsCase, plan: Plan) -> Vec<Failure> {
    let mut cur = Cursor::default();
    verif::arm(Some(FUEL));
    let r = guard(|| {
        let ws = Ws::new(&case.files, &case.root);
        let a = ws.analysis();
        run_all(&ws, &a, &mut NoObs, &mut cur, plan);
    });
    verif::arm(None);
    match r {
        Ok(()) => vec![],
        Err(p) => {
            let clause = if p.is_fuel() {
                "hang".to_string()
            } else {
                let m: String = p.message.chars().take(60).collect();
                format!("panic: {m}")
            };
            vec![Failure::new(
                &clause,
                case.witness(),
                format!("{} at {} during {}", p.message, p.location, cur.describe()),
                case.to_json(),
            )]
        }
    }
}

impl Engine for C03 {
    fn id(&self) -> &'static str {
        "C03"
    }

    fn rule(&self, tier: Tier) -> String {
        format!(
            "workspaces: every sequence of <= 3 statements over the {}-statement stress menu (self-parents, redefinitions, mutual references; quick: a third of the length-3 sequences), \
             the same menu as an included file under every root of <= 2 statements, every seed and small corpus file{}, every character-boundary prefix of every seed{}, \
             every word of <= 2 statements over that menu and a second menu (bang-operator variables, untypable values, group let, if/else, defaults, bit ranges, widths and indices at the edge of the integer range) with at least one of the second; every operator spelling found in the server's lexer table in four operator forms; two included files with identical texts (the same names at the same offsets of different files); three prefixes of forward class declarations followed by every word of <= 2 statements; include statements inside defset / let / foreach / if / multiclass / class bodies with a longer included file; a top-level let that no record of its body takes, before an include and at the end of an included file; every integer position of the grammar with every sign / separator / edge-of-range literal; nests of depth 3, 12 and 40 of twelve value forms (!cond, !if, lists, operators, dags, bits, class values) as a variable, a template argument and an override; every single-token deletion/duplication/transposition/replacement of every seed, CRLF/non-ASCII variants, and the layouts in which every name is followed by a comment / by a line break and a line comment (seeds, stress words of <= 2 statements). Per workspace: diagnostics; per file symbols, folding, links; \
             goto-definition, references, hover, completion (with and without '!') at every offset (texts <= 2 KiB) or token boundary +-1; inlay hints for every sub-range (texts <= 48 B) \
             or every empty/one-token/three-token/prefix/suffix/whole range at token boundaries. non-trivial = every workspace (all reach the indexer); distinct by construction.",
            crate::wspace::stress_menu().len(),
            tier.pick("", " and the large corpus files"),
            tier.pick("", " and corpus file <= 4 KiB"),
        )
    }

    fn assumptions(&self) -> Vec<String> {
        vec![
            "each workspace is analysed on a thread with a 2 MiB stack (tokio blocking-pool default); a stack overflow or abort kills the worker subprocess and is attributed through the per-case trace file".into(),
            "hangs: 5*10^7 parser/include-walk ticks of fuel per workspace, plus the parent's hard wall limit".into(),
            "workspaces with include cycles are excluded (C16)".into(),
        ]
    }

    fn trace_always(&self) -> bool {
        true
    }

    fn explore(&self, tier: Tier, ctx: &mut Ctx) {
        let r = guard_on_stack(STACK, || {
            for_each_workspace(tier, ctx, |ctx, case| {
                ctx.trace(|| case.to_json());
                ctx.case(true);
                ctx.add(case.stratum, 1);
                ctx.sample(|| json!({ "stratum": case.stratum, "workspace": truncate(&case.witness(), 200) }));
                let t0 = std::time::Instant::now();
                for f in eval_ws(case, plan_for(case, tier)) {
                    ctx.fail(f);
                }
                ctx.add(&format!("us_{}", case.stratum), t0.elapsed().as_micros() as u64);
                if std::env::var("TGV_SLOW").is_ok() && t0.elapsed().as_millis() > 100 {
                    eprintln!("SLOW {} ms: {} {:?}", t0.elapsed().as_millis(), case.root, truncate(case.root_text(), 3000));
                }
                !ctx.expired()
            });
        });
        if let Err(p) = r {
            panic!("harness panic: {} at {}", p.message, p.location);
        }
    }

    fn eval_case(&self, case: &Value) -> Vec<Failure> {
        let case = WsCase::from_json(case);
        guard_on_stack(STACK, || eval_ws(&case, plan_for(&case, Tier::Quick))).unwrap_or_default()
    }

    fn shrink(&self, case: &Value, _clause: &str) -> Vec<Value> {
        WsCase::from_json(case).shrink().into_iter().map(|c| c.to_json()).collect()
    }
}

pub fn truncate(s: &str, n: usize) -> String {
    if s.len() <= n {
        return s.to_string();
    }
    let mut e = n;
    while !s.is_char_boundary(e) {
        e -= 1;
    }
    format!("{}…", &s[..e])
}
