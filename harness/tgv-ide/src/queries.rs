//! The full query set an editor can issue, run against a real `Analysis`, with a
//! visitor receiving every result. `Cursor` records the query in flight so that
//! a panic can be attributed to it.

use std::collections::HashMap;

use ide::analysis::Analysis;
use ide::file_system::{FileId, FilePosition, FileRange};
use ide::handlers::completion::CompletionItem;
use ide::handlers::diagnostics::Diagnostic;
use ide::handlers::document_link::DocumentLink;
use ide::handlers::document_symbol::DocumentSymbol;
use ide::handlers::folding_range::FoldingRange;
use ide::handlers::hover::Hover;
use ide::handlers::inlay_hint::InlayHint;
use syntax::parser::{TextRange, TextSize};
use tgv_syntax::space::crude_tokens;

use crate::ws::Ws;

#[derive(Debug, Clone, Default)]
pub struct Cursor {
    pub kind: &'static str,
    pub file: String,
    pub a: usize,
    pub b: usize,
}

impl Cursor {
    pub fn describe(&self) -> String {
        format!("{} file={} at {}..{}", self.kind, self.file, self.a, self.b)
    }
}

#[allow(unused_variables)]
pub trait Obs {
    fn diagnostics(&mut self, ws: &Ws, d: &HashMap<FileId, Vec<Diagnostic>>) {}
    fn symbols(&mut self, ws: &Ws, file: FileId, r: &Option<Vec<DocumentSymbol>>) {}
    fn folding(&mut self, ws: &Ws, file: FileId, r: &Option<Vec<FoldingRange>>) {}
    fn links(&mut self, ws: &Ws, file: FileId, r: &Option<Vec<DocumentLink>>) {}
    fn goto(&mut self, ws: &Ws, a: &Analysis, pos: FilePosition, r: &Option<FileRange>) {}
    fn refs(&mut self, ws: &Ws, a: &Analysis, pos: FilePosition, r: &Option<Vec<FileRange>>) {}
    fn hover(&mut self, ws: &Ws, pos: FilePosition, r: &Option<Hover>) {}
    fn completion(&mut self, ws: &Ws, pos: FilePosition, bang: bool, r: &Option<Vec<CompletionItem>>) {}
    fn hints(&mut self, ws: &Ws, range: FileRange, r: &Option<Vec<InlayHint>>) {}
}

pub struct NoObs;
impl Obs for NoObs {}

/// Where to look: everything, or everything near a focus (the edit point) and a
/// systematic thinning elsewhere (quick tier only).
#[derive(Debug, Clone, Copy, PartialEq, Eq)]
pub enum Plan {
    Full,
    /// all offsets within `radius` bytes of the focus of the root file; elsewhere the start of every 8th token
    Around { focus: usize, radius: usize },
}

/// Offsets at which position queries are issued.
pub fn offsets(text: &str, plan: Plan) -> Vec<usize> {
    let all_boundaries = |text: &str| {
        let mut v: Vec<usize> = text.char_indices().map(|(i, _)| i).collect();
        v.push(text.len());
        v
    };
    match plan {
        Plan::Around { focus, radius } if text.len() > 256 => {
            let lo = focus.saturating_sub(radius);
            let hi = (focus + radius).min(text.len());
            let mut v: Vec<usize> = all_boundaries(text).into_iter().filter(|&o| o >= lo && o <= hi).collect();
            for (k, (s, _)) in crude_tokens(text).into_iter().enumerate() {
                if k % 8 == 0 {
                    v.push(s);
                }
            }
            v.push(0);
            v.push(text.len());
            v.sort_unstable();
            v.dedup();
            v
        }
        _ if text.len() <= 2048 => all_boundaries(text),
        _ => {
            let mut v = Vec::new();
            for (s, e) in crude_tokens(text) {
                for o in [s.saturating_sub(1), s, s + 1, e] {
                    if o <= text.len() && text.is_char_boundary(o) {
                        v.push(o);
                    }
                }
            }
            v.push(0);
            v.push(text.len());
            v.sort_unstable();
            v.dedup();
            v
        }
    }
}

/// Ranges for which inlay hints are requested: every sub-range of short texts;
/// otherwise empty, one-token, three-token, prefix, suffix and whole ranges at token boundaries.
pub fn hint_ranges(text: &str, plan: Plan) -> Vec<(usize, usize)> {
    let mut v = Vec::new();
    let near = |o: usize| match plan {
        Plan::Around { focus, radius } if text.len() > 256 => o + radius >= focus && o <= focus + radius,
        _ => true,
    };
    if text.len() <= 48 {
        let b: Vec<usize> = text.char_indices().map(|(i, _)| i).chain(std::iter::once(text.len())).collect();
        for (k, &i) in b.iter().enumerate() {
            for &j in &b[k..] {
                v.push((i, j));
            }
        }
    } else {
        let mut b: Vec<usize> = crude_tokens(text).into_iter().flat_map(|(s, e)| [s, e]).collect();
        b.push(0);
        b.push(text.len());
        b.sort_unstable();
        b.dedup();
        let step = if b.len() > 600 { b.len() / 300 } else { 1 };
        for k in (0..b.len()).step_by(step) {
            if !near(b[k]) && k % 8 != 0 {
                continue;
            }
            v.push((b[k], b[k]));
            for d in [1, 3] {
                if let Some(&j) = b.get(k + d) {
                    v.push((b[k], j));
                }
            }
        }
        // prefix and suffix ranges cost O(symbols) each: 16 evenly spaced cut points
        let cut = (b.len() / 16).max(1);
        for k in (0..b.len()).step_by(cut) {
            v.push((0, b[k]));
            v.push((b[k], text.len()));
        }
        v.push((0, text.len()));
    }
    v
}

/// Runs every query kind; position queries at `offsets`, hints at `hint_ranges`.
pub fn run_all(ws: &Ws, a: &Analysis, obs: &mut dyn Obs, cur: &mut Cursor, plan: Plan) {
    cur.kind = "diagnostics";
    let diags = a.diagnostics();
    obs.diagnostics(ws, &diags);
    // by path, not by id: ids depend on the order in which a host met the files
    let mut files: Vec<FileId> = diags.keys().copied().collect();
    files.sort_by_key(|f| ws.fs.path_of(*f));
    for f in files {
        cur.file = ws.fs.path_of(f);
        let Some(text) = ws.text_of(f).map(|s| s.to_string()) else { continue };
        cur.kind = "document_symbol";
        obs.symbols(ws, f, &a.document_symbol(f));
        cur.kind = "folding_range";
        obs.folding(ws, f, &a.folding_range(f));
        cur.kind = "document_link";
        obs.links(ws, f, &a.document_link(f));
        let plan = if f == ws.root { plan } else { Plan::Full };
        for o in offsets(&text, plan) {
            cur.a = o;
            cur.b = o;
            let pos = FilePosition::new(f, TextSize::from(o as u32));
            cur.kind = "goto_definition";
            obs.goto(ws, a, pos, &a.goto_definition(pos));
            cur.kind = "references";
            obs.refs(ws, a, pos, &a.references(pos));
            cur.kind = "hover";
            obs.hover(ws, pos, &a.hover(pos));
            cur.kind = "completion";
            obs.completion(ws, pos, false, &a.completion(pos, None));
            cur.kind = "completion!";
            obs.completion(ws, pos, true, &a.completion(pos, Some("!".to_string())));
        }
        cur.kind = "inlay_hint";
        for (i, j) in hint_ranges(&text, plan) {
            cur.a = i;
            cur.b = j;
            let range = FileRange::new(f, TextRange::new(TextSize::from(i as u32), TextSize::from(j as u32)));
            obs.hints(ws, range, &a.inlay_hint(range));
        }
    }
}
