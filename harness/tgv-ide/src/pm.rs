//! Program model (DESIGN §3.4): a small AST of the supported core language and an
//! emitter that prints it while recording, *by construction*, everything the
//! reference interpretations need: every identifier occurrence with the
//! declaration the TableGen scoping rules bind it to, the outline, the folding
//! ranges, hover facts and inlay hints. Nothing here looks at the implementation.
//!
//! Scoping reference = the rule in C05's statement, in llvm-tblgen's lookup
//! order: local variables (defvar / foreach / bang-operator variables) of the
//! innermost block first, then fields (own, then inherited) and template
//! arguments of the enclosing record, then the enclosing multiclass's template
//! arguments, outward; finally global defs and defsets declared earlier.

use std::collections::BTreeMap;

use serde::{Deserialize, Serialize};

#[derive(Debug, Clone, PartialEq, Eq, Serialize, Deserialize)]
pub enum Ty {
    Int,
    Str,
    Bit,
    Bits(u32),
    List(Box<Ty>),
    Dag,
    Code,
    Class(String),
}

impl Ty {
    pub fn show(&self) -> String {
        match self {
            Ty::Int => "int".into(),
            Ty::Str => "string".into(),
            Ty::Bit => "bit".into(),
            Ty::Bits(n) => format!("bits<{n}>"),
            Ty::List(t) => format!("list<{}>", t.show()),
            Ty::Dag => "dag".into(),
            Ty::Code => "code".into(),
            Ty::Class(c) => c.clone(),
        }
    }
}

#[derive(Debug, Clone, PartialEq, Serialize, Deserialize)]
pub enum E {
    Int(i64),
    Str(String),
    Bool(bool),
    Unset,
    Code(String),
    /// a value identifier use
    Id(String),
    ClassVal(String, Vec<E>, Vec<(String, E)>),
    Field(Box<E>, String),
    List(Vec<E>),
    Bits(Vec<E>),
    /// (operator arg[:$name], ...)
    Dag(Box<E>, Vec<(E, Option<String>)>),
    Paste(Box<E>, Box<E>),
    Bang(String, Option<Ty>, Vec<E>),
    BForeach(String, Box<E>, Box<E>),
    BFilter(String, Box<E>, Box<E>),
    BFoldl(Box<E>, Box<E>, String, String, Box<E>),
    Cond(Vec<(E, E)>),
    BitAt(Box<E>, u32),
    BitRange(Box<E>, u32, u32),
    ElemAt(Box<E>, u32),
    Slice(Box<E>, u32, u32),
    /// raw text spliced verbatim (fault seeding); no occurrences recorded
    Raw(String),
    /// a probe: occurrences inside are tagged with the id so that generators can select them
    Probe(usize, Box<E>),
}

#[derive(Debug, Clone, PartialEq, Serialize, Deserialize)]
pub struct TArg {
    pub ty: Ty,
    pub name: String,
    pub default: Option<E>,
}

#[derive(Debug, Clone, PartialEq, Serialize, Deserialize)]
pub struct CRef {
    pub name: String,
    pub args: Vec<E>,
    pub named: Vec<(String, E)>,
}

impl CRef {
    pub fn plain(name: &str) -> CRef {
        CRef { name: name.into(), args: vec![], named: vec![] }
    }
    pub fn with(name: &str, args: Vec<E>) -> CRef {
        CRef { name: name.into(), args, named: vec![] }
    }
}

#[derive(Debug, Clone, PartialEq, Serialize, Deserialize)]
pub enum BI {
    Field { doc: Vec<String>, blank: bool, ty: Ty, name: String, init: Option<E> },
    Let { name: String, value: E },
    Defvar { name: String, value: E },
    Assert { cond: E, msg: E },
    Dump(E),
}

#[derive(Debug, Clone, PartialEq, Serialize, Deserialize)]
pub enum Item {
    Class { doc: Vec<String>, blank: bool, name: String, targs: Vec<TArg>, parents: Vec<CRef>, body: Option<Vec<BI>> },
    Def { doc: Vec<String>, blank: bool, name: Option<String>, parents: Vec<CRef>, body: Option<Vec<BI>> },
    Defvar { name: String, value: E },
    Foreach { var: String, list: E, body: Vec<Item>, braces: bool },
    Let { binds: Vec<(String, E)>, body: Vec<Item>, braces: bool },
    If { cond: E, then: Vec<Item>, then_braces: bool, els: Option<Vec<Item>> },
    Defset { ty: Ty, name: String, body: Vec<Item> },
    Multiclass { doc: Vec<String>, name: String, targs: Vec<TArg>, parents: Vec<CRef>, body: Vec<Item> },
    Defm { name: Option<String>, parents: Vec<CRef> },
    Assert { cond: E, msg: E },
    Dump(E),
    Include(String),
    /// raw text spliced verbatim (fault seeding)
    Raw(String),
}

#[derive(Debug, Clone, PartialEq, Serialize, Deserialize)]
pub struct Program {
    /// (file name, items); the first file is the root
    pub files: Vec<(String, Vec<Item>)>,
}

// ---------------------------------------------------------------------------
// what the emitter records

pub type DeclId = usize;

#[derive(Debug, Clone, Copy, PartialEq, Eq)]
pub enum DeclKind {
    Class,
    Def,
    TemplateArg,
    Field,
    /// a body `let` of a field: an outline child, not a separate symbol for uses
    FieldOverride,
    Defvar,
    ForeachVar,
    BangVar,
    Defset,
    Multiclass,
    Defm,
}

#[derive(Debug, Clone)]
pub struct Decl {
    pub kind: DeclKind,
    pub name: String,
    pub file: usize,
    pub range: (usize, usize),
    /// declared type, where the language has one
    pub ty: Option<Ty>,
    pub doc: Vec<String>,
    /// record the symbol belongs to (fields: the declaring record)
    pub owner: Option<String>,
    pub uses: Vec<(usize, (usize, usize))>,
}

#[derive(Debug, Clone)]
pub struct Occ {
    pub file: usize,
    pub range: (usize, usize),
    pub name: String,
    /// the declaration this occurrence is (is_decl) or must resolve to; None = must not resolve
    pub target: Option<DeclId>,
    pub is_decl: bool,
    /// occurrences whose resolution the property leaves open are recorded but not judged
    pub judged: bool,
    /// innermost enclosing probe, if any
    pub probe: Option<usize>,
    pub role: Role,
}

#[derive(Debug, Clone, Copy, PartialEq, Eq)]
pub enum Role {
    Decl,
    ValueUse,
    ClassRef,
    MulticlassRef,
    FieldAccess,
    LetTarget,
}

/// A position whose value must have a declared type (field initialiser, body let, template argument).
#[derive(Debug, Clone)]
pub struct Slot {
    pub file: usize,
    pub span: (usize, usize),
    pub expected: Ty,
    pub what: &'static str,
}

/// A class reference with its argument list, for arity faults.
#[derive(Debug, Clone)]
pub struct ArgList {
    pub file: usize,
    pub name_range: (usize, usize),
    /// span of the last positional argument including the separator before it (or the whole `<..>` if it is the only one)
    pub last_arg: Option<(usize, usize)>,
    /// where a further argument can be inserted (just before `>`), or after the name when there is no list
    pub insert_at: usize,
    pub has_list: bool,
    pub positional: usize,
    pub named: usize,
    pub params: usize,
    pub required: usize,
    /// spans whose removal cuts the positional arguments down to the first k (k >= 1) and leaves a parameter
    /// without default unbound (also one that is declared after a parameter with a default)
    pub truncations: Vec<(usize, usize)>,
}

#[derive(Debug, Clone)]
pub struct BangCall {
    pub file: usize,
    pub op: String,
    pub nargs: usize,
    pub span: (usize, usize),
    /// span of the last argument including the separator before it
    pub last_arg: Option<(usize, usize)>,
    pub close: usize,
}

#[derive(Debug, Clone)]
pub struct Sym {
    pub kind: &'static str,
    pub name: String,
    pub range: (usize, usize),
    /// (kind, name, range)
    pub children: Vec<Sym>,
}

#[derive(Debug, Clone, Default)]
pub struct FileOut {
    pub name: String,
    pub text: String,
    pub outline: Vec<Sym>,
    pub folds: Vec<(usize, usize)>,
    /// (position, label)
    pub hints: Vec<(usize, String)>,
}

#[derive(Debug, Clone, Default)]
pub struct Emitted {
    pub files: Vec<FileOut>,
    pub decls: Vec<Decl>,
    pub occs: Vec<Occ>,
    pub slots: Vec<Slot>,
    pub arg_lists: Vec<ArgList>,
    pub bang_calls: Vec<BangCall>,
    /// (file, span of the path inside the quotes)
    pub includes: Vec<(usize, (usize, usize))>,
    /// (file, offset) of every statement-terminating `;`
    pub semis: Vec<(usize, usize)>,
}

// ---------------------------------------------------------------------------
// reference scoping state

#[derive(Debug, Clone, Default)]
struct Rec {
    name: String,
    targs: Vec<(String, DeclId)>,
    /// (name, decl the name currently denotes in this record, declaring decl)
    fields: Vec<(String, DeclId, Ty)>,
    parents: Vec<usize>,
    /// fields overridden by a body `let` here: what the name denotes afterwards is left open by the property
    overridden: Vec<String>,
}

#[derive(Debug, Clone)]
enum Scope {
    Block { vars: Vec<(String, DeclId)> },
    Record { rec: usize, vars: Vec<(String, DeclId)> },
    Multiclass { targs: Vec<(String, DeclId)>, vars: Vec<(String, DeclId)> },
}

pub struct Emitter<'p> {
    prog: &'p Program,
    out: Emitted,
    file: usize,
    recs: Vec<Rec>,
    classes: BTreeMap<String, usize>,
    defs: BTreeMap<String, (usize, DeclId)>,
    multiclasses: BTreeMap<String, DeclId>,
    globals: BTreeMap<String, DeclId>,
    class_decl: BTreeMap<usize, DeclId>,
    scopes: Vec<Scope>,
    included: Vec<String>,
    indent: usize,
    /// outline children currently being collected (innermost defset / top level)
    sym_stack: Vec<Vec<Sym>>,
    /// records declared inside a multiclass body are prototypes: not global values
    in_multiclass: usize,
    cur_probe: Option<usize>,
    targ_has_default: Vec<DeclId>,
    /// multiclass name -> (parameters, parameters without default)
    mc_params: BTreeMap<String, (usize, usize)>,
    /// bindings of the enclosing `let ... in` statements: (name, file, name range, value span, applied)
    pending_lets: Vec<(String, usize, (usize, usize), (usize, usize), bool)>,
    /// names declared more than once (a forward declaration and its definition): which of the
    /// declarations a use of the NAME denotes is left open; members are judged normally
    redeclared: Vec<String>,
    /// layout mode: a comment follows every identifier the emitter records (declarations and uses)
    trivia: bool,
}

pub fn emit(prog: &Program) -> Emitted {
    emit_with(prog, false)
}

/// `trivia`: every recorded identifier is followed by a blank and a comment (the recorded ranges
/// still cover the identifier only), field definitions carry the optional `field` keyword and
/// else-if chains are written without braces.
pub fn emit_with(prog: &Program, trivia: bool) -> Emitted {
    let mut e = Emitter {
        prog,
        out: Emitted { files: prog.files.iter().map(|(n, _)| FileOut { name: n.clone(), ..Default::default() }).collect(), ..Default::default() },
        file: 0,
        recs: Vec::new(),
        classes: BTreeMap::new(),
        defs: BTreeMap::new(),
        multiclasses: BTreeMap::new(),
        globals: BTreeMap::new(),
        class_decl: BTreeMap::new(),
        scopes: vec![Scope::Block { vars: vec![] }],
        included: vec![prog.files[0].0.clone()],
        indent: 0,
        sym_stack: vec![vec![]],
        in_multiclass: 0,
        cur_probe: None,
        targ_has_default: Vec::new(),
        mc_params: BTreeMap::new(),
        pending_lets: Vec::new(),
        redeclared: Vec::new(),
        trivia,
    };
    e.file_items(0);
    // files that are never included are still printed (they exist on disk) but have no semantics
    for i in 1..prog.files.len() {
        if e.out.files[i].text.is_empty() && !prog.files[i].1.is_empty() {
            let saved = std::mem::take(&mut e.out.occs);
            let saved_decls = e.out.decls.len();
            e.file = i;
            e.sym_stack = vec![vec![]];
            for it in &prog.files[i].1 {
                e.item(it);
            }
            e.out.files[i].outline.clear();
            e.out.files[i].folds.clear();
            e.out.files[i].hints.clear();
            e.out.occs = saved;
            e.out.decls.truncate(saved_decls);
        }
    }
    e.out
}

impl<'p> Emitter<'p> {
    fn w(&mut self, s: &str) {
        self.out.files[self.file].text.push_str(s);
    }

    fn pos(&self) -> usize {
        self.out.files[self.file].text.len()
    }

    fn semi(&mut self) {
        let at = self.pos();
        self.out.semis.push((self.file, at));
        self.w(";");
    }

    fn nl(&mut self) {
        self.w("\n");
        let pad = "  ".repeat(self.indent);
        self.w(&pad);
    }

    fn file_items(&mut self, idx: usize) {
        let saved_file = self.file;
        let saved_syms = std::mem::replace(&mut self.sym_stack, vec![vec![]]);
        let saved_indent = std::mem::replace(&mut self.indent, 0);
        self.file = idx;
        let items = &self.prog.files[idx].1;
        for it in items {
            self.item(it);
            self.w("\n");
        }
        let syms = self.sym_stack.pop().unwrap_or_default();
        self.out.files[idx].outline = syms;
        self.sym_stack = saved_syms;
        self.indent = saved_indent;
        self.file = saved_file;
    }

    // ---- declarations and uses -------------------------------------------------

    fn decl(&mut self, kind: DeclKind, name: &str, ty: Option<Ty>, doc: &[String], owner: Option<String>) -> DeclId {
        let s = self.pos();
        self.w(name);
        let id = self.out.decls.len();
        self.out.decls.push(Decl { kind, name: name.into(), file: self.file, range: (s, s + name.len()), ty, doc: doc.to_vec(), owner, uses: vec![] });
        self.out.occs.push(Occ { file: self.file, range: (s, s + name.len()), name: name.into(), target: Some(id), is_decl: true, judged: true, probe: self.cur_probe, role: Role::Decl });
        if self.trivia {
            self.w(" /*d*/");
        }
        id
    }

    fn use_of(&mut self, name: &str, target: Option<DeclId>, judged: bool) {
        self.use_as(name, target, judged, Role::ValueUse)
    }

    fn use_as(&mut self, name: &str, target: Option<DeclId>, judged: bool, role: Role) {
        let judged = judged && !(role == Role::ClassRef && self.redeclared.iter().any(|n| n == name));
        let s = self.pos();
        self.w(name);
        let r = (s, s + name.len());
        if let (Some(t), true) = (target, judged) {
            self.out.decls[t].uses.push((self.file, r));
        }
        self.out.occs.push(Occ { file: self.file, range: r, name: name.into(), target, is_decl: false, judged, probe: self.cur_probe, role });
        if self.trivia {
            self.w(" /*u*/");
        }
    }

    fn find_field(&self, rec: usize, name: &str) -> Option<(DeclId, Ty)> {
        self.find_field_clean(rec, name).map(|(d, t, _)| (d, t))
    }

    /// (declaration, type, no override of the field lies on the lookup path)
    fn find_field_clean(&self, rec: usize, name: &str) -> Option<(DeclId, Ty, bool)> {
        let r = &self.recs[rec];
        let clean_here = !r.overridden.iter().any(|n| n == name);
        if let Some((_, d, t)) = r.fields.iter().rev().find(|(n, _, _)| n == name) {
            return Some((*d, t.clone(), clean_here));
        }
        for &p in &r.parents {
            if let Some((d, t, c)) = self.find_field_clean(p, name) {
                return Some((d, t, c && clean_here));
            }
        }
        None
    }

    /// is the value-namespace binding of `name` one the property defines (no field override on the path)
    fn lookup_is_clean(&self, name: &str) -> bool {
        for sc in self.scopes.iter().rev() {
            match sc {
                Scope::Block { vars } | Scope::Multiclass { vars, .. } => {
                    if vars.iter().any(|(n, _)| n == name) {
                        return true;
                    }
                    if let Scope::Multiclass { targs, .. } = sc {
                        if targs.iter().any(|(n, _)| n == name) {
                            return true;
                        }
                    }
                }
                Scope::Record { rec, vars } => {
                    if vars.iter().any(|(n, _)| n == name) {
                        return true;
                    }
                    if let Some((_, _, clean)) = self.find_field_clean(*rec, name) {
                        return clean;
                    }
                    if self.recs[*rec].targs.iter().any(|(n, _)| n == name) {
                        return true;
                    }
                }
            }
        }
        true
    }

    /// value-namespace lookup
    fn lookup(&self, name: &str) -> Option<DeclId> {
        for sc in self.scopes.iter().rev() {
            match sc {
                Scope::Block { vars } => {
                    if let Some((_, d)) = vars.iter().rev().find(|(n, _)| n == name) {
                        return Some(*d);
                    }
                }
                Scope::Record { rec, vars } => {
                    if let Some((_, d)) = vars.iter().rev().find(|(n, _)| n == name) {
                        return Some(*d);
                    }
                    if let Some((d, _)) = self.find_field(*rec, name) {
                        return Some(d);
                    }
                    if let Some((_, d)) = self.recs[*rec].targs.iter().find(|(n, _)| n == name) {
                        return Some(*d);
                    }
                }
                Scope::Multiclass { targs, vars } => {
                    if let Some((_, d)) = vars.iter().rev().find(|(n, _)| n == name) {
                        return Some(*d);
                    }
                    if let Some((_, d)) = targs.iter().find(|(n, _)| n == name) {
                        return Some(*d);
                    }
                }
            }
        }
        if let Some((_, d)) = self.defs.get(name) {
            return Some(*d);
        }
        self.globals.get(name).copied()
    }

    fn add_var(&mut self, name: &str, d: DeclId) {
        match self.scopes.last_mut().unwrap() {
            Scope::Block { vars } | Scope::Record { vars, .. } | Scope::Multiclass { vars, .. } => vars.push((name.into(), d)),
        }
    }

    /// static record type of an expression, where the reference can tell
    fn rec_of(&self, e: &E) -> Option<usize> {
        match e {
            E::Id(n) => {
                let d = self.lookup(n)?;
                let decl = &self.out.decls[d];
                match decl.kind {
                    DeclKind::Def => self.defs.get(n).map(|(r, _)| *r),
                    _ => match &decl.ty {
                        Some(Ty::Class(c)) => self.classes.get(c).copied(),
                        _ => None,
                    },
                }
            }
            E::ClassVal(c, _, _) => self.classes.get(c).copied(),
            E::Field(base, f) => {
                let r = self.rec_of(base)?;
                match self.find_field(r, f)?.1 {
                    Ty::Class(c) => self.classes.get(&c).copied(),
                    _ => None,
                }
            }
            E::Bang(op, Some(Ty::Class(c)), _) if op == "!cast" => self.classes.get(c).copied(),
            E::Probe(_, inner) => self.rec_of(inner),
            _ => None,
        }
    }

    // ---- types and expressions ----------------------------------------------------

    fn ty(&mut self, t: &Ty) {
        match t {
            Ty::List(inner) => {
                self.w("list<");
                self.ty(inner);
                self.w(">");
            }
            Ty::Class(c) => {
                let target = self.classes.get(c).and_then(|r| self.class_decl.get(r)).copied();
                self.use_as(c, target, true, Role::ClassRef);
            }
            other => {
                let s = other.show();
                self.w(&s);
            }
        }
    }

    fn record_arg_list(&mut self, class: &str, name_range: (usize, usize), last_arg: Option<(usize, usize)>, insert_at: usize, has_list: bool, positional: usize, named: usize, arg_starts: &[usize]) {
        let (params, required, no_default) = match self.classes.get(class) {
            Some(r) => {
                let t = &self.recs[*r].targs;
                let nd: Vec<bool> = t.iter().map(|(_, d)| !self.targ_has_default.contains(d)).collect();
                (t.len(), nd.iter().filter(|x| **x).count(), nd)
            }
            None => (0, 0, vec![]),
        };
        let mut truncations = Vec::new();
        if named == 0 && has_list {
            for k in 1..arg_starts.len() {
                if no_default.iter().skip(k).any(|x| *x) {
                    truncations.push((arg_starts[k], insert_at));
                }
            }
        }
        self.out.arg_lists.push(ArgList { file: self.file, name_range, last_arg, insert_at, has_list, positional, named, params, required, truncations });
    }

    fn class_args(&mut self, class: &str, name_range: (usize, usize), args: &[E], named: &[(String, E)]) {
        if args.is_empty() && named.is_empty() {
            let at = self.pos();
            self.record_arg_list(class, name_range, None, at, false, 0, 0, &[]);
            return;
        }
        let params: Vec<(String, Ty)> = self
            .classes
            .get(class)
            .map(|r| self.recs[*r].targs.iter().map(|(n, d)| (n.clone(), self.out.decls[*d].ty.clone().unwrap_or(Ty::Int))).collect())
            .unwrap_or_default();
        let open = self.pos();
        self.w("<");
        let mut first = true;
        let mut last_arg = None;
        let mut arg_starts: Vec<usize> = Vec::new();
        for (i, a) in args.iter().enumerate() {
            let sep_start = self.pos();
            arg_starts.push(sep_start);
            if !first {
                self.w(", ");
            }
            first = false;
            if let Some((p, _)) = params.get(i) {
                let at = self.pos();
                self.out.files[self.file].hints.push((at, format!("{p}:")));
            }
            let s0 = self.pos();
            self.expr(a);
            let e0 = self.pos();
            if let Some((_, t)) = params.get(i) {
                self.out.slots.push(Slot { file: self.file, span: (s0, e0), expected: t.clone(), what: "template argument" });
            }
            last_arg = Some((sep_start, e0));
        }
        for (n, a) in named {
            if !first {
                self.w(", ");
            }
            first = false;
            self.w(&format!("{n} = "));
            self.expr(a);
        }
        let close = self.pos();
        self.w(">");
        let _ = open;
        self.record_arg_list(class, name_range, if named.is_empty() { last_arg } else { None }, close, true, args.len(), named.len(), &arg_starts);
    }

    fn mc_args(&mut self, multiclass: &str, name_range: (usize, usize), args: &[E]) {
        let (params, required) = self.mc_params.get(multiclass).copied().unwrap_or((0, 0));
        if args.is_empty() {
            let at = self.pos();
            self.out.arg_lists.push(ArgList { file: self.file, name_range, last_arg: None, insert_at: at, has_list: false, positional: 0, named: 0, params, required, truncations: vec![] });
            return;
        }
        self.w("<");
        let mut last_arg = None;
        for (i, a) in args.iter().enumerate() {
            let sep_start = self.pos();
            if i > 0 {
                self.w(", ");
            }
            self.expr(a);
            last_arg = Some((sep_start, self.pos()));
        }
        let close = self.pos();
        self.w(">");
        self.out.arg_lists.push(ArgList { file: self.file, name_range, last_arg, insert_at: close, has_list: true, positional: args.len(), named: 0, params, required, truncations: vec![] });
    }

    fn bang_var(&mut self, name: &str) -> DeclId {
        self.decl(DeclKind::BangVar, name, None, &[], None)
    }

    pub fn expr(&mut self, e: &E) {
        match e {
            E::Int(i) => self.w(&i.to_string()),
            E::Str(s) => self.w(&format!("\"{s}\"")),
            E::Bool(b) => self.w(if *b { "true" } else { "false" }),
            E::Unset => self.w("?"),
            E::Code(c) => self.w(&format!("[{{ {c} }}]")),
            E::Raw(s) => self.w(s),
            E::Probe(id, inner) => {
                let saved = self.cur_probe.replace(*id);
                self.expr(inner);
                self.cur_probe = saved;
            }
            E::Id(n) => {
                let t = self.lookup(n);
                let clean = self.lookup_is_clean(n);
                self.use_of(n, t, clean);
            }
            E::ClassVal(c, args, named) => {
                let target = self.classes.get(c).and_then(|r| self.class_decl.get(r)).copied();
                let name_start = self.pos();
                self.use_as(c, target, true, Role::ClassRef);
                if args.is_empty() && named.is_empty() {
                    let at = self.pos();
                    self.w("<>");
                    self.record_arg_list(c, (name_start, at), None, at + 1, true, 0, 0, &[]);
                } else {
                    self.class_args(c, (name_start, self.pos()), args, named);
                }
            }
            E::Field(base, f) => {
                let rec = self.rec_of(base);
                self.expr(base);
                self.w(".");
                let found = rec.and_then(|r| self.find_field_clean(r, f));
                let target = found.as_ref().map(|(d, _, _)| *d);
                // only judged when the reference can type the base, finds the field, and no override lies on the path
                let clean = found.as_ref().map(|(_, _, c)| *c).unwrap_or(false);
                self.use_as(f, target, rec.is_some() && clean, Role::FieldAccess);
            }
            E::List(xs) => {
                // `[{` would open a code fragment
                self.w(if matches!(xs.first(), Some(E::Bits(_))) { "[ " } else { "[" });
                for (i, x) in xs.iter().enumerate() {
                    if i > 0 {
                        self.w(", ");
                    }
                    self.expr(x);
                }
                self.w("]");
            }
            E::Bits(xs) => {
                self.w("{");
                for (i, x) in xs.iter().enumerate() {
                    if i > 0 {
                        self.w(", ");
                    }
                    self.expr(x);
                }
                self.w("}");
            }
            E::Dag(op, args) => {
                self.w("(");
                self.expr(op);
                for (i, (a, n)) in args.iter().enumerate() {
                    self.w(if i == 0 { " " } else { ", " });
                    self.expr(a);
                    if let Some(n) = n {
                        self.w(&format!(":${n}"));
                    }
                }
                self.w(")");
            }
            E::Paste(a, b) => {
                self.expr(a);
                self.w(" # ");
                self.expr(b);
            }
            E::Bang(op, ty, args) => {
                let start = self.pos();
                self.w(op);
                if let Some(t) = ty {
                    self.w("<");
                    self.ty(t);
                    self.w(">");
                }
                self.w("(");
                let mut last_arg = None;
                for (i, a) in args.iter().enumerate() {
                    let sep = self.pos();
                    if i > 0 {
                        self.w(", ");
                    }
                    self.expr(a);
                    last_arg = Some((sep, self.pos()));
                }
                let close = self.pos();
                self.w(")");
                self.out.bang_calls.push(BangCall { file: self.file, op: op.clone(), nargs: args.len(), span: (start, close + 1), last_arg, close });
            }
            E::BForeach(v, list, body) | E::BFilter(v, list, body) => {
                self.w(if matches!(e, E::BForeach(..)) { "!foreach(" } else { "!filter(" });
                // the variable is declared by the operator; the list is evaluated outside its scope
                let at = self.pos();
                self.w(v);
                self.w(", ");
                self.expr(list);
                self.w(", ");
                // declare after printing the list: record the declaration at its printed position
                let id = self.out.decls.len();
                self.out.decls.push(Decl { kind: DeclKind::BangVar, name: v.clone(), file: self.file, range: (at, at + v.len()), ty: None, doc: vec![], owner: None, uses: vec![] });
                self.out.occs.push(Occ { file: self.file, range: (at, at + v.len()), name: v.clone(), target: Some(id), is_decl: true, judged: true, probe: self.cur_probe, role: Role::Decl });
                self.scopes.push(Scope::Block { vars: vec![(v.clone(), id)] });
                self.expr(body);
                self.scopes.pop();
                self.w(")");
            }
            E::BFoldl(init, list, acc, v, body) => {
                self.w("!foldl(");
                self.expr(init);
                self.w(", ");
                self.expr(list);
                self.w(", ");
                let a = self.bang_var(acc);
                self.w(", ");
                let b = self.bang_var(v);
                self.w(", ");
                self.scopes.push(Scope::Block { vars: vec![(acc.clone(), a), (v.clone(), b)] });
                self.expr(body);
                self.scopes.pop();
                self.w(")");
            }
            E::Cond(cs) => {
                self.w("!cond(");
                for (i, (c, v)) in cs.iter().enumerate() {
                    if i > 0 {
                        self.w(", ");
                    }
                    self.expr(c);
                    self.w(": ");
                    self.expr(v);
                }
                self.w(")");
            }
            E::BitAt(b, i) => {
                self.expr(b);
                self.w(&format!("{{{i}}}"));
            }
            E::BitRange(b, hi, lo) => {
                self.expr(b);
                self.w(&format!("{{{hi}...{lo}}}"));
            }
            E::ElemAt(b, i) => {
                self.expr(b);
                self.w(&format!("[{i}]"));
            }
            E::Slice(b, lo, hi) => {
                self.expr(b);
                self.w(&format!("[{lo}...{hi}]"));
            }
        }
    }

    // ---- records ---------------------------------------------------------------------

    fn doc(&mut self, doc: &[String], blank: bool) {
        for d in doc {
            // an empty entry is a blank line inside the run of comments
            if !d.is_empty() {
                self.w(&format!("// {d}"));
            }
            self.nl();
        }
        if blank && !doc.is_empty() {
            // a blank line detaches the comment from the declaration
            self.w("\n");
            let pad = "  ".repeat(self.indent);
            self.w(&pad);
        }
    }

    fn effective_doc(doc: &[String], blank: bool) -> Vec<String> {
        if blank {
            vec![]
        } else {
            // only the comment lines below the last blank line are directly above the declaration
            let start = doc.iter().rposition(|d| d.is_empty()).map(|i| i + 1).unwrap_or(0);
            doc[start..].to_vec()
        }
    }

    fn targs(&mut self, targs: &[TArg], owner: &str, rec: Option<usize>) -> Vec<(String, DeclId, Sym)> {
        let mut out = Vec::new();
        if targs.is_empty() {
            return out;
        }
        self.w("<");
        for (i, t) in targs.iter().enumerate() {
            if i > 0 {
                self.w(", ");
            }
            self.ty(&t.ty);
            self.w(" ");
            let d = self.decl(DeclKind::TemplateArg, &t.name, Some(t.ty.clone()), &[], Some(owner.to_string()));
            let range = self.out.decls[d].range;
            // a template argument is visible to the following defaults and arguments
            if let Some(r) = rec {
                self.recs[r].targs.push((t.name.clone(), d));
            } else if let Some(Scope::Multiclass { targs, .. }) = self.scopes.last_mut() {
                targs.push((t.name.clone(), d));
            }
            out.push((t.name.clone(), d, Sym { kind: "template-arg", name: t.name.clone(), range, children: vec![] }));
            if let Some(v) = &t.default {
                self.targ_has_default.push(d);
                self.w(" = ");
                let s0 = self.pos();
                self.expr(v);
                let e0 = self.pos();
                self.out.slots.push(Slot { file: self.file, span: (s0, e0), expected: t.ty.clone(), what: "template argument default" });
            }
        }
        self.w(">");
        out
    }

    fn parents(&mut self, parents: &[CRef], rec: usize) {
        for (i, p) in parents.iter().enumerate() {
            self.w(if i == 0 { " : " } else { ", " });
            let cls = self.classes.get(&p.name).copied();
            let target = cls.and_then(|r| self.class_decl.get(&r)).copied();
            let ns = self.pos();
            self.use_as(&p.name, target, true, Role::ClassRef);
            let ne = ns + p.name.len();
            self.class_args(&p.name, (ns, ne), &p.args, &p.named);
            if let Some(c) = cls {
                if c != rec {
                    self.recs[rec].parents.push(c);
                }
            }
        }
        // as in llvm-tblgen, the enclosing lets take effect once the parents are known: the first record
        // that has the field is where the name resolves and where the value is checked
        for i in 0..self.pending_lets.len() {
            if self.pending_lets[i].4 {
                continue;
            }
            let Some((d, ty)) = self.find_field(rec, &self.pending_lets[i].0) else { continue };
            self.pending_lets[i].4 = true;
            let (name, file, r, span, _) = self.pending_lets[i].clone();
            self.out.decls[d].uses.push((file, r));
            self.out.occs.push(Occ { file, range: r, name, target: Some(d), is_decl: false, judged: true, probe: None, role: Role::LetTarget });
            self.out.slots.push(Slot { file, span, expected: ty, what: "group let" });
        }
    }

    fn body(&mut self, body: &Option<Vec<BI>>, rec: usize, children: &mut Vec<Sym>) {
        let Some(items) = body else {
            self.semi();
            return;
        };
        self.w(" {");
        self.indent += 1;
        for it in items {
            self.nl();
            match it {
                BI::Field { doc, blank, ty, name, init } => {
                    self.doc(doc, *blank);
                    // the optional `field` keyword belongs to the definition it introduces
                    if self.trivia {
                        self.w("field ");
                    }
                    self.ty(ty);
                    self.w(" ");
                    let owner = self.recs[rec].name.clone();
                    let d = self.decl(DeclKind::Field, name, Some(ty.clone()), &Self::effective_doc(doc, *blank), Some(owner));
                    let range = self.out.decls[d].range;
                    self.recs[rec].fields.push((name.clone(), d, ty.clone()));
                    children.push(Sym { kind: "field", name: name.clone(), range, children: vec![] });
                    if let Some(v) = init {
                        self.w(" = ");
                        let s0 = self.pos();
                        self.expr(v);
                        let e0 = self.pos();
                        self.out.slots.push(Slot { file: self.file, span: (s0, e0), expected: ty.clone(), what: "field initialiser" });
                    }
                    self.semi();
                }
                BI::Let { name, value } => {
                    // `name{7-4}`: only some bits of the field are overridden (the field, its type and its hint stay what they are)
                    let (name, bits_suffix) = match name.find('{') {
                        Some(i) => (&name[..i].to_string(), name[i..].to_string()),
                        None => (name, String::new()),
                    };
                    self.w("let ");
                    let found = self.find_field(rec, name);
                    let s = self.pos();
                    // an undeclared let target is not in the property's list: recorded, not judged
                    self.use_as(name, found.as_ref().map(|(d, _)| *d), found.is_some(), Role::LetTarget);
                    let let_ty = found.as_ref().map(|(_, t)| t.clone());
                    if found.is_some() {
                        self.recs[rec].overridden.push(name.clone());
                    }
                    if let Some((orig, ty)) = found {
                        let range = (s, s + name.len());
                        // the override is an outline child of this record and carries a type hint
                        children.push(Sym { kind: "field", name: name.clone(), range, children: vec![] });
                        let hint_at = s + name.len();
                        self.out.files[self.file].hints.push((hint_at, format!(":{}", ty.show())));
                        // later lookups of the name in this record are outside what the property defines:
                        // keep denoting the original declaration
                        let _ = orig;
                    }
                    self.w(&bits_suffix);
                    self.w(" = ");
                    let s0 = self.pos();
                    self.expr(value);
                    let e0 = self.pos();
                    // (the value of a partial override is judged against the selected bits, which no slot models)
                    if let Some(t) = let_ty.filter(|_| bits_suffix.is_empty()) {
                        self.out.slots.push(Slot { file: self.file, span: (s0, e0), expected: t, what: "field override" });
                    }
                    self.semi();
                }
                BI::Defvar { name, value } => {
                    self.w("defvar ");
                    let at = self.pos();
                    self.w(name);
                    self.w(" = ");
                    self.expr(value);
                    self.semi();
                    // the variable is visible after its own initialiser
                    let id = self.out.decls.len();
                    self.out.decls.push(Decl { kind: DeclKind::Defvar, name: name.clone(), file: self.file, range: (at, at + name.len()), ty: None, doc: vec![], owner: None, uses: vec![] });
                    self.out.occs.push(Occ { file: self.file, range: (at, at + name.len()), name: name.clone(), target: Some(id), is_decl: true, judged: true, probe: self.cur_probe, role: Role::Decl });
                    self.add_var(name, id);
                }
                BI::Assert { cond, msg } => {
                    self.w("assert ");
                    self.expr(cond);
                    self.w(", ");
                    self.expr(msg);
                    self.semi();
                }
                BI::Dump(e) => {
                    self.w("dump ");
                    self.expr(e);
                    self.semi();
                }
            }
        }
        self.indent -= 1;
        self.nl();
        self.w("}");
    }

    fn fold(&mut self, start: usize) {
        let end = self.pos();
        self.out.files[self.file].folds.push((start, end));
    }

    fn block(&mut self, items: &[Item], braces: bool) {
        if braces {
            self.w("{");
            self.indent += 1;
            for it in items {
                self.nl();
                self.item(it);
            }
            self.indent -= 1;
            self.nl();
            self.w("}");
        } else {
            for it in items.iter().take(1) {
                self.item(it);
            }
        }
    }

    pub fn item(&mut self, it: &Item) {
        match it {
            Item::Raw(s) => self.w(s),
            Item::Include(name) => {
                self.w("include \"");
                let s0 = self.pos();
                self.w(name);
                let e0 = self.pos();
                self.out.includes.push((self.file, (s0, e0)));
                self.w("\"");
                if let Some(idx) = self.prog.files.iter().position(|(n, _)| n == name) {
                    if !self.included.contains(name) {
                        self.included.push(name.clone());
                        self.file_items(idx);
                    }
                }
            }
            Item::Class { doc, blank, name, targs, parents, body } => {
                self.doc(doc, *blank);
                let start = self.pos();
                self.w("class ");
                let rec = self.recs.len();
                self.recs.push(Rec { name: name.clone(), ..Default::default() });
                let d = self.decl(DeclKind::Class, name, None, &Self::effective_doc(doc, *blank), None);
                if self.classes.contains_key(name) {
                    self.redeclared.push(name.clone());
                    // neither declaration is judged as "the" declaration of the name
                    for o in self.out.occs.iter_mut().filter(|o| o.is_decl && o.name == *name && o.role == Role::Decl) {
                        if self.out.decls[o.target.unwrap()].kind == DeclKind::Class {
                            o.judged = false;
                        }
                    }
                }
                self.classes.insert(name.clone(), rec);
                self.class_decl.insert(rec, d);
                self.scopes.push(Scope::Record { rec, vars: vec![] });
                let mut children: Vec<Sym> = self.targs(targs, name, Some(rec)).into_iter().map(|(_, _, s)| s).collect();
                self.parents(parents, rec);
                self.body(body, rec, &mut children);
                self.scopes.pop();
                self.fold(start);
                let range = self.out.decls[d].range;
                self.sym_stack.last_mut().unwrap().push(Sym { kind: "class", name: name.clone(), range, children });
            }
            Item::Def { doc, blank, name, parents, body } => {
                self.doc(doc, *blank);
                let start = self.pos();
                self.w("def");
                let rec = self.recs.len();
                self.recs.push(Rec { name: name.clone().unwrap_or_default(), ..Default::default() });
                let mut decl = None;
                if let Some(n) = name {
                    self.w(" ");
                    let d = self.decl(DeclKind::Def, n, None, &Self::effective_doc(doc, *blank), None);
                    if self.in_multiclass == 0 {
                        self.defs.insert(n.clone(), (rec, d));
                    }
                    decl = Some(d);
                }
                self.scopes.push(Scope::Record { rec, vars: vec![] });
                let mut children = Vec::new();
                self.parents(parents, rec);
                self.body(body, rec, &mut children);
                self.scopes.pop();
                self.fold(start);
                if let (Some(d), Some(n)) = (decl, name) {
                    let range = self.out.decls[d].range;
                    self.sym_stack.last_mut().unwrap().push(Sym { kind: "def", name: n.clone(), range, children });
                }
            }
            Item::Defvar { name, value } => {
                self.w("defvar ");
                let at = self.pos();
                self.w(name);
                self.w(" = ");
                self.expr(value);
                self.semi();
                let id = self.out.decls.len();
                self.out.decls.push(Decl { kind: DeclKind::Defvar, name: name.clone(), file: self.file, range: (at, at + name.len()), ty: None, doc: vec![], owner: None, uses: vec![] });
                self.out.occs.push(Occ { file: self.file, range: (at, at + name.len()), name: name.clone(), target: Some(id), is_decl: true, judged: true, probe: self.cur_probe, role: Role::Decl });
                self.add_var(name, id);
            }
            Item::Foreach { var, list, body, braces } => {
                let start = self.pos();
                self.w("foreach ");
                let at = self.pos();
                self.w(var);
                self.w(" = ");
                self.expr(list);
                self.w(" in ");
                let id = self.out.decls.len();
                self.out.decls.push(Decl { kind: DeclKind::ForeachVar, name: var.clone(), file: self.file, range: (at, at + var.len()), ty: None, doc: vec![], owner: None, uses: vec![] });
                self.out.occs.push(Occ { file: self.file, range: (at, at + var.len()), name: var.clone(), target: Some(id), is_decl: true, judged: true, probe: self.cur_probe, role: Role::Decl });
                self.scopes.push(Scope::Block { vars: vec![(var.clone(), id)] });
                self.block(body, *braces);
                self.scopes.pop();
                self.fold(start);
            }
            Item::Let { binds, body, braces } => {
                let start = self.pos();
                self.w("let ");
                let outer = self.pending_lets.len();
                for (i, (n, v)) in binds.iter().enumerate() {
                    if i > 0 {
                        self.w(", ");
                    }
                    let ns = self.pos();
                    self.w(n);
                    if self.trivia {
                        self.w(" /*u*/");
                    }
                    self.w(" = ");
                    let vs = self.pos();
                    self.expr(v);
                    self.pending_lets.push((n.clone(), self.file, (ns, ns + n.len()), (vs, self.pos()), false));
                }
                self.w(" in ");
                // a group let opens a scope for local variables
                self.scopes.push(Scope::Block { vars: vec![] });
                self.block(body, *braces);
                self.scopes.pop();
                // a binding no record of the body has a field for is not in the property's list: recorded, not judged
                for (n, file, r, _, applied) in self.pending_lets.split_off(outer) {
                    if !applied {
                        self.out.occs.push(Occ { file, range: r, name: n, target: None, is_decl: false, judged: false, probe: None, role: Role::LetTarget });
                    }
                }
                self.fold(start);
            }
            Item::If { cond, then, then_braces, els } => {
                let start = self.pos();
                self.w("if ");
                self.expr(cond);
                self.w(" then ");
                self.scopes.push(Scope::Block { vars: vec![] });
                self.block(then, *then_braces);
                self.scopes.pop();
                if let Some(e) = els {
                    self.w(" else ");
                    self.scopes.push(Scope::Block { vars: vec![] });
                    // in the alternative layout an else branch that is a single `if` is written as an `else if` chain
                    let chain = self.trivia && e.len() == 1 && matches!(e[0], Item::If { .. });
                    self.block(e, !chain);
                    self.scopes.pop();
                }
                self.fold(start);
            }
            Item::Defset { ty, name, body } => {
                let start = self.pos();
                self.w("defset ");
                self.ty(ty);
                self.w(" ");
                let d = self.decl(DeclKind::Defset, name, Some(ty.clone()), &[], None);
                self.w(" = ");
                self.sym_stack.push(vec![]);
                self.block(body, true);
                let inner = self.sym_stack.pop().unwrap_or_default();
                self.fold(start);
                // the set is a global value once it is closed
                self.globals.insert(name.clone(), d);
                let range = self.out.decls[d].range;
                // defs declared inside are the set's children; other declarations stay top-level entries
                let (defs, others): (Vec<Sym>, Vec<Sym>) = inner.into_iter().partition(|s| s.kind == "def");
                self.sym_stack.last_mut().unwrap().push(Sym { kind: "defset", name: name.clone(), range, children: defs });
                for o in others {
                    self.sym_stack.last_mut().unwrap().push(o);
                }
            }
            Item::Multiclass { doc, name, targs, parents, body } => {
                self.doc(doc, false);
                let start = self.pos();
                self.w("multiclass ");
                let d = self.decl(DeclKind::Multiclass, name, None, &Self::effective_doc(doc, false), None);
                self.multiclasses.insert(name.clone(), d);
                self.scopes.push(Scope::Multiclass { targs: vec![], vars: vec![] });
                let children: Vec<Sym> = self.targs(targs, name, None).into_iter().map(|(_, _, s)| s).collect();
                self.mc_params.insert(name.clone(), (targs.len(), targs.iter().filter(|t| t.default.is_none()).count()));
                for (i, p) in parents.iter().enumerate() {
                    self.w(if i == 0 { " : " } else { ", " });
                    let target = self.multiclasses.get(&p.name).copied().filter(|t| *t != d);
                    let ns = self.pos();
                    self.use_as(&p.name, target.or(Some(d).filter(|_| p.name == *name)), true, Role::MulticlassRef);
                    self.mc_args(&p.name, (ns, ns + p.name.len()), &p.args);
                }
                self.w(" ");
                self.in_multiclass += 1;
                // the multiclass entry precedes the named defs of its body, which are entries of their own
                let range = self.out.decls[d].range;
                self.sym_stack.last_mut().unwrap().push(Sym { kind: "multiclass", name: name.clone(), range, children });
                self.block(body, true);
                self.in_multiclass -= 1;
                self.scopes.pop();
                self.fold(start);
            }
            Item::Defm { name, parents } => {
                self.w("defm");
                if let Some(n) = name {
                    self.w(" ");
                    self.decl(DeclKind::Defm, n, None, &[], None);
                }
                for (i, p) in parents.iter().enumerate() {
                    self.w(if i == 0 { " : " } else { ", " });
                    let target = self.multiclasses.get(&p.name).copied();
                    let ns = self.pos();
                    self.use_as(&p.name, target, true, Role::MulticlassRef);
                    self.mc_args(&p.name, (ns, ns + p.name.len()), &p.args);
                }
                self.semi();
            }
            Item::Assert { cond, msg } => {
                self.w("assert ");
                self.expr(cond);
                self.w(", ");
                self.expr(msg);
                self.semi();
            }
            Item::Dump(e) => {
                self.w("dump ");
                self.expr(e);
                self.semi();
            }
        }
    }
}

impl Emitted {
    pub fn workspace(&self, dir: &str) -> Vec<(String, String)> {
        self.files.iter().map(|f| (format!("{dir}/{}", f.name), f.text.clone())).collect()
    }
}
