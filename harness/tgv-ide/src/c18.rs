//! C18 — outline and folding mirror the declaration structure.

use ide::handlers::document_symbol::{DocumentSymbol, DocumentSymbolKind};
use tgv_core::{guard, guard_on_stack, json, Ctx, Engine, Failure, Tier, Value};

use crate::c03::STACK;
use crate::c05::{file_ids, program_of, shrink_program, DIR};
use crate::pm::{emit, Emitted, Program, Sym};
use crate::pmgen::{for_each_path, scope_program, structure_programs, well_scoped};
use crate::ws::Ws;

pub struct C18;

#[derive(Debug, Clone, PartialEq, Eq, PartialOrd, Ord)]
struct Node {
    kind: &'static str,
    name: String,
    range: (usize, usize),
    children: Vec<Node>,
}

fn of_sym(s: &Sym) -> Node {
    // children: one per template argument and per field declared or overridden; compared as a multiset
    let mut children: Vec<Node> = s.children.iter().map(of_sym).collect();
    children.sort();
    Node { kind: s.kind, name: s.name.clone(), range: s.range, children }
}

fn of_doc(s: &DocumentSymbol) -> Node {
    let kind = match s.kind {
        DocumentSymbolKind::Class => "class",
        DocumentSymbolKind::TemplateArgument => "template-arg",
        DocumentSymbolKind::Field => "field",
        DocumentSymbolKind::Def => "def",
        DocumentSymbolKind::Variable => "variable",
        DocumentSymbolKind::Defset => "defset",
        DocumentSymbolKind::Multiclass => "multiclass",
    };
    let mut children: Vec<Node> = s.children.iter().map(of_doc).collect();
    // the members of a defset are listed in source order; other children are an unordered set
    if kind != "defset" {
        children.sort();
    }
    Node { kind, name: s.name.to_string(), range: (usize::from(s.range.start()), usize::from(s.range.end())), children }
}

fn of_sym_ordered(s: &Sym) -> Node {
    let mut n = of_sym(s);
    if s.kind == "defset" {
        n.children = s.children.iter().map(of_sym_ordered).collect();
    }
    n
}

fn show(nodes: &[Node], depth: usize, out: &mut String) {
    for n in nodes {
        out.push_str(&format!("{}{} {} {}..{}\n", "  ".repeat(depth), n.kind, n.name, n.range.0, n.range.1));
        show(&n.children, depth + 1, out);
    }
}

pub fn check(em: &Emitted) -> Vec<(String, String)> {
    let files = em.workspace(DIR);
    let ws = Ws::new(&files, &files[0].0);
    let a = ws.analysis();
    let ids = file_ids(&ws, em);
    let mut out = Vec::new();
    for (i, f) in em.files.iter().enumerate() {
        let Some(fid) = ids[i] else { continue };
        // outline
        let want: Vec<Node> = f.outline.iter().map(of_sym_ordered).collect();
        let got: Vec<Node> = a.document_symbol(fid).unwrap_or_default().iter().map(of_doc).collect();
        if got != want {
            let (mut g, mut w) = (String::new(), String::new());
            show(&got, 0, &mut g);
            show(&want, 0, &mut w);
            out.push(("outline".to_string(), format!("{}: document symbols are\n{g}declared structure is\n{w}", f.name)));
        }
        // folding
        let mut want: Vec<(usize, usize)> = f.folds.clone();
        want.sort();
        let mut got: Vec<(usize, usize)> = a.folding_range(fid).unwrap_or_default().iter().map(|r| (usize::from(r.range.start()), usize::from(r.range.end()))).collect();
        got.sort();
        if got != want {
            out.push(("folding".to_string(), format!("{}: folding ranges {got:?}, statements {want:?}", f.name)));
        }
        for (k, x) in got.iter().enumerate() {
            for y in &got[k + 1..] {
                let disjoint = x.1 <= y.0 || y.1 <= x.0;
                let nested = (x.0 <= y.0 && y.1 <= x.1) || (y.0 <= x.0 && x.1 <= y.1);
                if !disjoint && !nested {
                    out.push(("folding-overlap".to_string(), format!("{}: folding ranges {x:?} and {y:?} overlap without nesting", f.name)));
                }
            }
        }
    }
    out
}

pub fn eval_program(p: &Program, trivia: bool) -> Vec<Failure> {
    let em = crate::pm::emit_with(p, trivia);
    let witness: String = em.files.iter().map(|f| format!("// {}\n{}", f.name, f.text)).collect::<Vec<_>>().join("\n");
    let case = json!({ "program": p, "trivia": trivia, "witness": witness });
    let mut seen = std::collections::BTreeSet::new();
    match guard(|| check(&em)) {
        Ok(problems) => problems.into_iter().filter(|(c, _)| seen.insert(c.clone())).map(|(c, d)| Failure::new(&c, witness.clone(), d, case.clone())).collect(),
        Err(pn) => vec![Failure::new("crash", witness, format!("{} at {}", pn.message, pn.location), case)],
    }
}

impl Engine for C18 {
    fn id(&self) -> &'static str {
        "C18"
    }

    fn rule(&self, tier: Tier) -> String {
        format!(
            "declaration-structure programs: every declaration variant (class with 0..2 template arguments x parent x no/empty/full body; named and anonymous def x parent x body; defsets empty / with named and anonymous defs / nested / with foreach and class inside; multiclass with 0..2 template arguments x parent, defm named and anonymous) \
             inside every wrapper path of length <= {} over {{foreach, let, if-then, if-else}} with and without braces, in one- and two-file layouts; plus the well-scoped scope programs of C05 (nesting depth <= {}) in the one-file, two-file and diamond layouts (every file's outline is compared). \
             Every program is printed twice: plainly and with a comment after every identifier. Expected outline (ordered top-level list, defset members ordered, other children as multisets) and folding ranges are recorded by the emitter. non-trivial = every program; distinct by construction.",
            tier.pick(3, 5),
            tier.pick(3, 5)
        )
    }

    fn assumptions(&self) -> Vec<String> {
        vec![
            "named defs inside foreach / let / if / multiclass bodies are top-level outline entries in source order (they are named defs declared in that file); a def inside a defset is that defset's child; anonymous defs and defm statements are not listed".into(),
        ]
    }

    fn trace_always(&self) -> bool {
        true
    }

    fn explore(&self, tier: Tier, ctx: &mut Ctx) {
        let r = guard_on_stack(STACK, || {
            let mut run = |ctx: &mut Ctx, p: &Program| -> bool {
                if !ctx.mine() {
                    return true;
                }
                // each program in the plain layout and with a comment after every identifier
                for trivia in [false, true] {
                    ctx.trace(|| json!({ "program": p, "trivia": trivia }));
                    let fails = eval_program(p, trivia);
                    ctx.case(true);
                    for f in fails {
                        ctx.fail(f);
                    }
                }
                ctx.sample(|| json!(emit(p).files[0].text.chars().take(240).collect::<String>()));
                !ctx.expired()
            };
            structure_programs(tier.pick(3, 5), |p| run(ctx, p));
            for_each_path(tier.pick(3, 5), |_, path| {
                // one file; the prelude included; a diamond (the prelude included directly and again through a
                // second file that goes on declaring, plus two included files with identical texts)
                for layout in [0, 1, 4] {
                    let p = well_scoped(&scope_program(path, 0, layout));
                    if !run(ctx, &p) {
                        return false;
                    }
                }
                true
            });
        });
        if let Err(p) = r {
            panic!("harness panic: {} at {}", p.message, p.location);
        }
    }

    fn eval_case(&self, case: &Value) -> Vec<Failure> {
        let Some(p) = program_of(case) else { return vec![] };
        let trivia = case["trivia"].as_bool().unwrap_or(false);
        guard_on_stack(STACK, || eval_program(&p, trivia)).unwrap_or_default()
    }

    fn shrink(&self, case: &Value, _clause: &str) -> Vec<Value> {
        let Some(p) = program_of(case) else { return vec![] };
        let trivia = case["trivia"].as_bool().unwrap_or(false);
        // deleting a declaration the rest depends on makes a different (ill-formed) program
        shrink_program(&p)
            .into_iter()
            .filter(|q| emit(q).occs.iter().all(|o| o.target.is_some() || !o.judged))
            .map(|q| json!({ "program": q, "trivia": trivia }))
            .collect()
    }
}
