//! C05 — name resolution: go-to-definition and references follow TableGen scoping.

use ide::file_system::{FileId, FilePosition};
use syntax::parser::TextSize;
use tgv_core::{guard, guard_on_stack, json, Ctx, Engine, Failure, Tier, Value};

use crate::c03::STACK;
use crate::pm::{emit_with, Emitted, Program};
use crate::pmgen::{for_each_path, scope_program, WRAPPERS};
use crate::ws::Ws;

pub struct C05;

pub const DIR: &str = "/ws";

pub fn file_ids(ws: &Ws, em: &Emitted) -> Vec<Option<FileId>> {
    em.files.iter().map(|f| ws.fs.lookup(&format!("{DIR}/{}", f.name))).collect()
}

fn snippet(em: &Emitted, file: usize, r: (usize, usize)) -> String {
    let t = &em.files[file].text;
    let ls = t[..r.0].rfind('\n').map(|i| i + 1).unwrap_or(0);
    let le = t[r.1..].find('\n').map(|i| r.1 + i).unwrap_or(t.len());
    format!("{}:{}..{} in `{}`", em.files[file].name, r.0, r.1, t[ls..le].trim())
}

/// Compares the analysis of an emitted program with the reference scoping.
pub fn check(em: &Emitted, well_scoped: bool) -> (Vec<(String, String)>, u64) {
    let files = em.workspace(DIR);
    let ws = Ws::new(&files, &files[0].0);
    let a = ws.analysis();
    let ids = file_ids(&ws, em);
    let diags = a.diagnostics();
    let mut out: Vec<(String, String)> = Vec::new();
    let mut push = |c: &str, d: String| {
        if !out.iter().any(|(cc, _)| cc == c) {
            out.push((c.to_string(), d));
        }
    };
    let mut judged = 0;
    for occ in em.occs.iter().filter(|o| o.judged) {
        let Some(fid) = ids[occ.file] else { continue };
        // sentence 1 of the property speaks about well-scoped programs, sentence 2 about out-of-scope uses
        if !well_scoped && (occ.is_decl || occ.target.is_some()) {
            continue;
        }
        if well_scoped && occ.target.is_none() {
            // cannot happen for probes (they were replaced); other unresolved names are generator errors
            push("generator", format!("{}: unresolved name in a program meant to be well scoped", snippet(em, occ.file, occ.range)));
            continue;
        }
        judged += 1;
        let want = occ.target.map(|d| {
            let decl = &em.decls[d];
            (decl.file, decl.range)
        });
        for off in (occ.range.0..occ.range.1).filter(|_| !occ.is_decl) {
            let got = a.goto_definition(FilePosition::new(fid, TextSize::from(off as u32)));
            let got_n = got.map(|g| {
                let fi = ids.iter().position(|x| *x == Some(g.file)).unwrap_or(usize::MAX);
                (fi, (usize::from(g.range.start()), usize::from(g.range.end())))
            });
            if got_n != want {
                let kind = match (occ.is_decl, want.is_some(), got_n.is_some()) {
                    (true, _, _) => "declaration-not-its-own-definition",
                    (false, true, false) => "use-not-resolved",
                    (false, true, true) => "use-resolved-to-wrong-declaration",
                    (false, false, _) => "out-of-scope-use-resolved",
                };
                push(
                    kind,
                    format!(
                        "{} at offset {off}: go-to-definition gives {}, the scoping rules give {}",
                        snippet(em, occ.file, occ.range),
                        got_n.map(|(f, r)| if f == usize::MAX { "a file outside the program".to_string() } else { snippet(em, f, r) }).unwrap_or_else(|| "nothing".into()),
                        want.map(|(f, r)| snippet(em, f, r)).unwrap_or_else(|| "nothing (out of scope)".into()),
                    ),
                );
                break;
            }
        }
        if occ.target.is_none() {
            // reported as not found, exactly on the use
            let hit = diags.get(&fid).map(|l| {
                l.iter().any(|d| (usize::from(d.location.range.start()), usize::from(d.location.range.end())) == occ.range && d.message.contains("not found"))
            });
            if hit != Some(true) {
                push("out-of-scope-use-not-reported", format!("{}: no 'not found' diagnostic exactly on the use", snippet(em, occ.file, occ.range)));
            }
        }
        if occ.is_decl {
            let d = occ.target.unwrap();
            let mut want: Vec<(usize, (usize, usize))> = em.decls[d].uses.clone();
            want.sort();
            let got = a.references(FilePosition::new(fid, TextSize::from(occ.range.0 as u32)));
            let mut got_n: Vec<(usize, (usize, usize))> = got
                .unwrap_or_default()
                .iter()
                .map(|g| (ids.iter().position(|x| *x == Some(g.file)).unwrap_or(usize::MAX), (usize::from(g.range.start()), usize::from(g.range.end()))))
                .collect();
            got_n.sort();
            if got_n != want {
                let missing: Vec<String> = want.iter().filter(|w| !got_n.contains(w)).map(|(f, r)| snippet(em, *f, *r)).collect();
                let extra: Vec<String> = got_n.iter().filter(|g| !want.contains(g)).map(|(f, r)| if *f == usize::MAX { "?".into() } else { snippet(em, *f, *r) }).collect();
                push(
                    "references-differ",
                    format!("references of {} ({:?}): missing {:?}, unexpected {:?}", snippet(em, occ.file, occ.range), em.decls[d].kind, missing, extra),
                );
            }
        }
    }
    (out, judged)
}

pub fn eval_program(p: &Program, well_scoped: bool, trivia: bool) -> (Vec<Failure>, u64) {
    let em = emit_with(p, trivia);
    let witness: String = em.files.iter().map(|f| format!("// {}\n{}", f.name, f.text)).collect::<Vec<_>>().join("\n");
    let case = json!({ "program": p, "well_scoped": well_scoped, "trivia": trivia, "witness": witness });
    match guard(|| check(&em, well_scoped)) {
        Ok((problems, n)) => (problems.into_iter().map(|(c, d)| Failure::new(&c, witness.clone(), d, case.clone())).collect(), n),
        Err(pn) => (vec![Failure::new("crash", witness, format!("{} at {}", pn.message, pn.location), case)], 0),
    }
}

/// Smaller programs: delete one item anywhere (statements, body items).
pub fn shrink_program(p: &Program) -> Vec<Program> {
    use crate::pm::Item;
    fn variants(items: &[Item]) -> Vec<Vec<Item>> {
        let mut out = Vec::new();
        for i in 0..items.len() {
            let mut v = items.to_vec();
            v.remove(i);
            out.push(v);
        }
        for i in 0..items.len() {
            let subs: Vec<Item> = match &items[i] {
                Item::Foreach { braces: false, .. } | Item::Let { braces: false, .. } | Item::If { then_braces: false, .. } => vec![],
                Item::Foreach { var, list, body, braces } => variants(body).into_iter().map(|b| Item::Foreach { var: var.clone(), list: list.clone(), body: b, braces: *braces }).collect(),
                Item::Let { binds, body, braces } => variants(body).into_iter().map(|b| Item::Let { binds: binds.clone(), body: b, braces: *braces }).collect(),
                Item::If { cond, then, then_braces, els } => {
                    let mut v: Vec<Item> = variants(then).into_iter().map(|b| Item::If { cond: cond.clone(), then: b, then_braces: *then_braces, els: els.clone() }).collect();
                    if let Some(e) = els {
                        v.extend(variants(e).into_iter().map(|b| Item::If { cond: cond.clone(), then: then.clone(), then_braces: *then_braces, els: Some(b) }));
                    }
                    v
                }
                Item::Defset { ty, name, body } => variants(body).into_iter().map(|b| Item::Defset { ty: ty.clone(), name: name.clone(), body: b }).collect(),
                Item::Multiclass { doc, name, targs, parents, body } => variants(body)
                    .into_iter()
                    .map(|b| Item::Multiclass { doc: doc.clone(), name: name.clone(), targs: targs.clone(), parents: parents.clone(), body: b })
                    .collect(),
                Item::Class { doc, blank, name, targs, parents, body: Some(b) } => (0..b.len())
                    .map(|k| {
                        let mut nb = b.clone();
                        nb.remove(k);
                        Item::Class { doc: doc.clone(), blank: *blank, name: name.clone(), targs: targs.clone(), parents: parents.clone(), body: Some(nb) }
                    })
                    .collect(),
                Item::Def { doc, blank, name, parents, body: Some(b) } => (0..b.len())
                    .map(|k| {
                        let mut nb = b.clone();
                        nb.remove(k);
                        Item::Def { doc: doc.clone(), blank: *blank, name: name.clone(), parents: parents.clone(), body: Some(nb) }
                    })
                    .collect(),
                _ => vec![],
            };
            for s in subs {
                let mut v = items.to_vec();
                v[i] = s;
                out.push(v);
            }
        }
        out
    }
    let mut out = Vec::new();
    for fi in (0..p.files.len()).rev() {
        for v in variants(&p.files[fi].1) {
            // a non-brace block needs its single statement; the emitter tolerates an empty one
            let mut q = p.clone();
            q.files[fi].1 = v;
            out.push(q);
        }
    }
    out
}

pub fn program_of(case: &Value) -> Option<Program> {
    serde_json::from_value(case["program"].clone()).ok()
}

impl Engine for C05 {
    fn id(&self) -> &'static str {
        "C05"
    }

    fn rule(&self, tier: Tier) -> String {
        format!(
            "programs = prelude (a class with a template argument and two fields, a multiclass, a def) + every admissible nesting path of length <= {} over 8 scope-opening constructs \
             (foreach with and without braces, group let, if-then, if-else, defset, multiclass with and without template arguments) x {} use positions (plain, list, bang argument, dag argument, !cond, paste, class-value argument, bits, !if, !foreach/!foldl/!filter bodies, base of a field / element / bit access, dag operator, operand of !cast<T>, sequence of !foreach, start value of !foldl, a !foreach body without computable type, a paste operand behind an operand without computable type) x 5 layouts (one file; prelude included; each also with a forward declaration of the class before its definition; a diamond in which the prelude is included directly and again through a second file that declares and uses names after the repeated include, plus two included files with identical texts that use the same names at the same offsets), half of the (use position, layout) pairs printed with a comment after every identifier; \
             at every level a probe use of each of {} pool names is placed before, inside and after the construct, in statements (defvar, assert, dump, anonymous def parent argument) and in leaf records (template default, parent argument, field initialiser, body let, body defvar, defm argument). \
             Every identifier occurrence the emitter records is judged at every offset. non-trivial = every program (each has in-scope, shadowed and out-of-scope uses); distinct by construction.",
            tier.pick(3, 5),
            WRAPPERS,
            crate::pmgen::POOL.len()
        )
    }

    fn assumptions(&self) -> Vec<String> {
        vec![
            "reference scoping = llvm-tblgen's lookup order as stated in the property; positions the property leaves undefined (a parent's template argument in an heir, a field after its own override, named template arguments, paste in a def name, defs of multiclass prototypes as values) are generated but not judged".into(),
            "group let, if branches and foreach bodies open a scope for local variables, as in llvm-tblgen".into(),
        ]
    }

    fn trace_always(&self) -> bool {
        true
    }

    fn explore(&self, tier: Tier, ctx: &mut Ctx) {
        let r = guard_on_stack(STACK, || {
            for_each_path(tier.pick(3, 5), |_, path| {
                for wrapper in 0..WRAPPERS {
                    for layout in 0..5 {
                        if !ctx.mine() {
                            continue;
                        }
                        let full = scope_program(path, wrapper, layout);
                        // half of the programs are printed with a comment after every identifier
                        let trivia = (wrapper + layout) % 2 == 1;
                        let valid = crate::pmgen::well_scoped(&full);
                        for (p, ws) in [(&valid, true), (&full, false)] {
                            ctx.trace(|| json!({ "program": p, "well_scoped": ws, "trivia": trivia, "witness": format!("{path:?} wrapper {wrapper} layout {layout}") }));
                            let (fails, judged) = eval_program(p, ws, trivia);
                            ctx.case(true);
                            ctx.add(if ws { "occurrences_judged_well_scoped" } else { "out_of_scope_uses_judged" }, judged);
                            for f in fails {
                                ctx.fail(f);
                            }
                        }
                        ctx.sample(|| json!({ "path": format!("{path:?}"), "wrapper": wrapper, "layout": layout }));
                        if ctx.expired() {
                            return false;
                        }
                    }
                }
                true
            });
        });
        if let Err(p) = r {
            panic!("harness panic: {} at {}", p.message, p.location);
        }
    }

    fn eval_case(&self, case: &Value) -> Vec<Failure> {
        let Some(p) = program_of(case) else { return vec![] };
        let ws = case["well_scoped"].as_bool().unwrap_or(true);
        let trivia = case["trivia"].as_bool().unwrap_or(false);
        guard_on_stack(STACK, || eval_program(&p, ws, trivia).0).unwrap_or_default()
    }

    fn shrink(&self, case: &Value, _clause: &str) -> Vec<Value> {
        let Some(p) = program_of(case) else { return vec![] };
        let ws = case["well_scoped"].as_bool().unwrap_or(true);
        let trivia = case["trivia"].as_bool().unwrap_or(false);
        // a shrunk well-scoped program must stay well scoped: re-apply the probe filter
        shrink_program(&p)
            .into_iter()
            // deleting a declaration the rest depends on makes a different program: only pool names may be unresolved
            .filter(|q| emit_with(q, false).occs.iter().all(|o| o.target.is_some() || !o.judged || crate::pmgen::POOL.contains(&o.name.as_str())))
            .map(|q| if ws { crate::pmgen::well_scoped(&q) } else { q })
            .map(|q| json!({ "program": q, "well_scoped": ws, "trivia": trivia }))
            .collect()
    }
}
