//! In-memory workspaces for the real `ide` analysis: a `FileSystem` over a map,
//! the server's own update protocol (set_file_content + set_root_file), and the
//! full query set with file ids mapped back to paths.

use std::collections::BTreeMap;
use std::path::{Path, PathBuf};
use std::sync::Arc;

use ide::analysis::{Analysis, AnalysisHost};
use ide::file_system::{FileId, FilePath, FileSet, FileSystem};

#[derive(Debug, Default)]
pub struct MemFs {
    pub contents: BTreeMap<PathBuf, String>,
    file_set: FileSet,
    next: u32,
    pub reads: u64,
}

impl MemFs {
    pub fn new(files: &[(String, String)]) -> Self {
        let mut fs = MemFs::default();
        for (p, t) in files {
            fs.contents.insert(PathBuf::from(p), t.clone());
        }
        fs
    }

    pub fn id_of(&mut self, path: &str) -> FileId {
        self.assign_or_get_file_id(FilePath(PathBuf::from(path)))
    }

    pub fn lookup(&self, path: &str) -> Option<FileId> {
        self.file_set.file_for_path(&FilePath(PathBuf::from(path)))
    }

    pub fn path_of(&self, id: FileId) -> String {
        if self.file_set.contains(&id) {
            self.file_set.path_for_file(&id).0.to_string_lossy().to_string()
        } else {
            format!("<unknown file {}>", id.0)
        }
    }

    pub fn set(&mut self, path: &str, text: &str) {
        self.contents.insert(PathBuf::from(path), text.to_string());
    }

    pub fn remove(&mut self, path: &str) {
        self.contents.remove(Path::new(path));
    }
}

/// One file has one identity however its path is written: `.` and `..` are resolved lexically,
/// as a real file system resolves them (without symbolic links).
fn normalized(path: &Path) -> PathBuf {
    let mut out = PathBuf::new();
    for c in path.components() {
        match c {
            std::path::Component::CurDir => {}
            std::path::Component::ParentDir => {
                out.pop();
            }
            other => out.push(other),
        }
    }
    out
}

impl FileSystem for MemFs {
    fn assign_or_get_file_id(&mut self, path: FilePath) -> FileId {
        let path = FilePath(normalized(&path.0));
        match self.file_set.file_for_path(&path) {
            Some(id) => id,
            None => {
                let id = FileId(self.next);
                self.next += 1;
                self.file_set.insert(id, path);
                id
            }
        }
    }

    fn path_for_file(&self, file_id: &FileId) -> &FilePath {
        self.file_set.path_for_file(file_id)
    }

    fn read_content(&self, file_path: &FilePath) -> Option<String> {
        self.contents.get(&normalized(&file_path.0)).cloned()
    }
}

pub struct Ws {
    pub host: AnalysisHost,
    pub fs: MemFs,
    pub root: FileId,
}

impl Ws {
    /// A fresh host given only file texts and the root path (what the server does on didOpen).
    pub fn new(files: &[(String, String)], root: &str) -> Ws {
        let mut fs = MemFs::new(files);
        let mut host = AnalysisHost::new();
        let root_id = fs.id_of(root);
        let text = fs.contents.get(Path::new(root)).cloned().unwrap_or_default();
        host.set_file_content(root_id, Arc::from(text.as_str()));
        host.set_root_file(&mut fs, root_id);
        Ws { host, fs, root: root_id }
    }

    pub fn single(text: &str) -> Ws {
        Ws::new(&[("/ws/a.td".to_string(), text.to_string())], "/ws/a.td")
    }

    /// The server's protocol for a changed or newly focused document.
    pub fn touch(&mut self, path: &str, text: &str) {
        self.fs.set(path, text);
        let id = self.fs.id_of(path);
        self.host.set_file_content(id, Arc::from(text));
        self.host.set_root_file(&mut self.fs, id);
        self.root = id;
    }

    /// An edit that keeps the current root (`set_file_content` then re-select the root).
    pub fn edit(&mut self, path: &str, text: &str) {
        self.fs.set(path, text);
        let id = self.fs.id_of(path);
        self.host.set_file_content(id, Arc::from(text));
        let root = self.root;
        self.host.set_root_file(&mut self.fs, root);
    }

    pub fn root_path(&self) -> String {
        self.fs.path_of(self.root)
    }

    pub fn analysis(&self) -> Analysis {
        self.host.analysis()
    }

    pub fn text_of(&self, id: FileId) -> Option<&str> {
        if !self.fs.file_set.contains(&id) {
            return None;
        }
        let p = self.fs.file_set.path_for_file(&id);
        self.fs.contents.get(&p.0).map(|s| s.as_str())
    }
}

/// INCLUDE_DIR changes include resolution; make the process environment deterministic.
pub fn clean_env() {
    std::env::remove_var("INCLUDE_DIR");
}
