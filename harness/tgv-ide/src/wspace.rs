//! The shared workspace space of C03 / C06 / C17 (DESIGN §5 C03): seeds and small
//! corpus files, their prefixes and single-token edits (the states a user types
//! through), the exhaustive semantic stress menu in one- and two-file layouts,
//! and CRLF / non-ASCII variants. No include cycles (C16 owns those).

use tgv_core::runner::{Ctx, Tier};
use tgv_core::{json, Value};
use tgv_syntax::space;

#[derive(Debug, Clone)]
pub struct WsCase {
    /// (absolute path, text)
    pub files: Vec<(String, String)>,
    pub root: String,
    pub stratum: &'static str,
    /// offset in the root file where this state differs from the seed (edit point / end of prefix)
    pub focus: Option<usize>,
}

impl WsCase {
    pub fn single(text: &str, stratum: &'static str) -> Self {
        WsCase { files: vec![("/ws/a.td".to_string(), text.to_string())], root: "/ws/a.td".to_string(), stratum, focus: None }
    }

    pub fn to_json(&self) -> Value {
        json!({ "files": self.files, "root": self.root, "witness": self.witness(), "focus": self.focus })
    }

    pub fn from_json(v: &Value) -> WsCase {
        let files = v["files"]
            .as_array()
            .map(|a| {
                a.iter()
                    .map(|p| (p[0].as_str().unwrap_or_default().to_string(), p[1].as_str().unwrap_or_default().to_string()))
                    .collect()
            })
            .unwrap_or_default();
        WsCase {
            files,
            root: v["root"].as_str().unwrap_or_default().to_string(),
            stratum: "replay",
            focus: v["focus"].as_u64().map(|x| x as usize),
        }
    }

    pub fn witness(&self) -> String {
        if self.files.len() == 1 {
            self.files[0].1.clone()
        } else {
            let mut s = format!("root={}", self.root);
            for (p, t) in &self.files {
                s.push_str(&format!(" | {p}: {t}"));
            }
            s
        }
    }

    pub fn root_text(&self) -> &str {
        self.files.iter().find(|(p, _)| *p == self.root).map(|(_, t)| t.as_str()).unwrap_or("")
    }

    /// Smaller workspaces: drop a non-root file, delete lines / characters of one file.
    pub fn shrink(&self) -> Vec<WsCase> {
        let mut out = Vec::new();
        if self.focus.is_some() {
            // without a focus every offset is queried: the shrunk witness is independent of the plan
            let mut c = self.clone();
            c.focus = None;
            return vec![c];
        }
        for i in 0..self.files.len() {
            if self.files[i].0 != self.root {
                let mut c = self.clone();
                c.files.remove(i);
                out.push(c);
            }
        }
        for i in 0..self.files.len() {
            for t in tgv_core::shrink::text_deletions(&self.files[i].1) {
                let mut c = self.clone();
                c.files[i].1 = t;
                out.push(c);
            }
        }
        out
    }
}

/// The stress menu: statements over two names with self-parents, redefinitions,
/// mutual references in every order.
pub fn stress_menu() -> Vec<String> {
    let templates: &[&str] = &[
        "class X;",
        "class X : Y;",
        "class X<int a> : Y<a> { int f = a; let f = 1; }",
        "def X : Y;",
        "def X : Y { let f = 2; }",
        "multiclass X { def a; }",
        "defm X : Y;",
        "defvar X = Y;",
        "multiclass X : Y { def b : X; }",
        "class X { Y g = Y<1>; int h = g.f; }",
        "defset list<X> Y = { def X : Y; }",
        "foreach X = [Y] in def d#X : Y<X>;",
    ];
    let mut out = Vec::new();
    for t in templates {
        for x in ["A", "B"] {
            for y in ["A", "B"] {
                let s = t.replace('X', "\u{1}").replace('Y', y).replace('\u{1}', x);
                if !out.contains(&s) {
                    out.push(s);
                }
            }
        }
    }
    out
}

/// Statements with bang-operator variables, untypable values, group let and if/else; used in
/// words of <= 2 statements together with the stress menu.
pub fn stress_menu_b() -> Vec<String> {
    let templates: &[&str] = &[
        "class X { list<int> v = [1]; list<int> w = !foreach(e, v, !add(e, Y)); int z = !foldl(0, w, a, b, !add(a, b)); int last = e; }",
        "let f = 1 in { def X : Y; }",
        "if !eq(1, 1) then { def X : Y; } else { def X; }",
        "def X : Y { int v = !cond(true: 1); let f = !cond(true: 2); bits<2> b = { 1, 0 }; bit c = b{0}; }",
        "defvar X = !filter(e, [1, 2], !gt(e, Y));",
        "multiclass X<int p = !cond(true: 1)> : Y<p> { defvar v = p; def _a : X; }",
        // bit ranges whose piece sizes do not fit the arithmetic they are summed in
        "def X : Y { bits<4> b = 0; bit c = b{0-9223372036854775807, 0-9223372036854775807}; bits<2> d = b{9223372036854775807...0, 1}; int e = b{-9223372036854775808}; }",
        // widths and indices at the edge of the integer range, summed by a brace literal, used as list indices
        "def X : Y { bits<9223372036854775807> a; bits<8> b = { a, a, a }; bits<8> c = { a{0-9223372036854775807}, a{0-9223372036854775807} }; list<int> l = [1]; int m = l[9223372036854775807]; list<int> n = l[0...9223372036854775807]; }",
        // accesses to a field that does not exist, with non-ASCII trivia between the dot and the name
        "def X : Y;\ndefvar vX = [X./*é€😀*/n, X./*é€😀*/no, X./*é€😀*/nof, X./*é€😀*/nofi, X./*é€😀*/nofie, X./*é€😀*/nofiel, X./*é€😀*/nofield];\ndefvar wX = X. /*é*/ alsono /*€*/ . /*😀*/ deeper;",
        // one let over two defs whose classes each declare the field, with an untyped value and with some bits only
        "class P1 { bits<4> f = 0; } class P2 { bits<4> f = 0; } let f = !cond(true: 1) in { def X : P1; def Y : P2; } let f<0> = 1 in { def X1 : P2; def Y1 : P1; }",
    ];
    let mut out = Vec::new();
    for t in templates {
        for x in ["A", "B"] {
            for y in ["A", "B"] {
                let s = t.replace('X', "\u{1}").replace('Y', y).replace('\u{1}', x);
                if !out.contains(&s) {
                    out.push(s);
                }
            }
        }
    }
    out
}

/// A header comment of several hundred bytes with 2-, 3- and 4-byte characters.
pub const LONG_PREAMBLE: &str = "// generated header é€😀 - do not edit\n// ------------------------------------------------------------------------\n// ééééééééééééééééééééééééééééééééééééééééééééééééééééééééééééééééééééééé\n// €€€€€€€€€€€€€€€€€€€€€€€€€€€€€€€€€€€€€€€€€€€€€€€€€€€€€€€€€€€€€€€€€€€€€€€\n";

pub fn seed_workspace(files: &space::Files, name: &str, text: &str, stratum: &'static str) -> WsCase {
    // seeds may include each other: give every workspace the whole seed directory
    if text.contains("include") {
        let mut fs: Vec<(String, String)> = files
            .seeds
            .iter()
            .filter(|(n, _)| n != name)
            .map(|(n, t)| (format!("/ws/{n}"), t.clone()))
            .collect();
        fs.push((format!("/ws/{name}"), text.to_string()));
        WsCase { files: fs, root: format!("/ws/{name}"), stratum, focus: None }
    } else {
        WsCase { files: vec![(format!("/ws/{name}"), text.to_string())], root: format!("/ws/{name}"), stratum, focus: None }
    }
}

/// Enumerates this worker's share of the workspace space.
pub fn for_each_workspace(tier: Tier, ctx: &mut Ctx, mut f: impl FnMut(&mut Ctx, &WsCase) -> bool) {
    let files = space::files();
    let small = 8 * 1024;

    // 1. stress menu, one file: all sequences of <= 3 statements (quick: <= 2 plus a third from the first half)
    let menu = stress_menu();
    let m = menu.len();
    let max_len = 3;
    let mut word = Vec::new();
    let total = tgv_core::words::count_upto(m as u64, max_len);
    let mut idx = ctx.shard;
    while idx < total {
        tgv_core::words::decode(idx, m as u64, max_len, &mut word);
        idx += ctx.nshards;
        if tier == Tier::Quick && word.len() == 3 && word[2] % 3 != 0 {
            continue;
        }
        let text = word.iter().map(|&i| menu[i].as_str()).collect::<Vec<_>>().join("\n");
        if !f(ctx, &WsCase::single(&text, "stress")) {
            return;
        }
    }
    // 2. stress menu, two files: root includes b; b holds one statement, root up to two
    let total2 = tgv_core::words::count_upto(m as u64, 2);
    for bi in 0..m {
        let mut idx = 0;
        while idx < total2 {
            tgv_core::words::decode(idx, m as u64, 2, &mut word);
            idx += 1;
            if tier == Tier::Quick && word.len() == 2 && word[1] % 3 != 0 {
                continue;
            }
            if !ctx.mine() {
                continue;
            }
            let mut root = String::from("include \"b.td\"\n");
            root.push_str(&word.iter().map(|&i| menu[i].as_str()).collect::<Vec<_>>().join("\n"));
            let case = WsCase {
                // the included file is much longer than its includer: a position that ends up paired with the wrong file falls outside it
                files: vec![("/ws/a.td".into(), root), ("/ws/b.td".into(), format!("{}{}", LONG_PREAMBLE, menu[bi]))],
                root: "/ws/a.td".into(),
                stratum: "stress2",
                focus: None,
            };
            if !f(ctx, &case) {
                return;
            }
        }
    }
    // 2a. the second menu: every word of <= 2 statements over both menus with at least one statement of the second
    {
        let mut both = menu.clone();
        both.extend(stress_menu_b());
        let n = both.len() as u64;
        let total = tgv_core::words::count_upto(n, 2);
        for idx in 0..total {
            tgv_core::words::decode(idx, n, 2, &mut word);
            if !word.iter().any(|&i| i >= m) || !ctx.mine() {
                continue;
            }
            let text = word.iter().map(|&i| both[i].as_str()).collect::<Vec<_>>().join("\n");
            if !f(ctx, &WsCase::single(&text, "stress-b")) {
                return;
            }
        }
    }
    // 2a'. forward declarations first: three prefixes of two class statements, then every word of <= 2 statements
    for prefix in ["class A;\nclass B;", "class A;\nclass B : A;", "class B;\nclass A : B;"] {
        let total = tgv_core::words::count_upto(m as u64, 2);
        for idx in 1..total {
            tgv_core::words::decode(idx, m as u64, 2, &mut word);
            if !ctx.mine() {
                continue;
            }
            let text = format!("{prefix}\n{}", word.iter().map(|&i| menu[i].as_str()).collect::<Vec<_>>().join("\n"));
            if !f(ctx, &WsCase::single(&text, "forward")) {
                return;
            }
        }
    }
    // 2a''. every operator spelling the server's own lexer accepts, in the operator forms the indexer tells apart
    for op in crate::c20::names_in_lexer_source() {
        if !ctx.mine() {
            continue;
        }
        let text = format!(
            "class A<int a> {{ int f = !{op}(a, 1); }}\ndefvar v = !{op}<int>(\"s\");\ndef d : A<!{op}(1, [2], \"s\")> {{ let f = !{op}(); }}\nforeach i = !{op}([1], 2) in def e#i;"
        );
        if !f(ctx, &WsCase::single(&text, "operators")) {
            return;
        }
    }
    // 2a'''. twins: two included files with the same text, so that the same names are used at the same offsets of different files
    for bi in 0..m {
        if !ctx.mine() {
            continue;
        }
        let case = WsCase {
            files: vec![
                ("/ws/a.td".into(), "class A<int a> { int f = a; }\nclass B<int a> { int f = a; }\ninclude \"b.td\"\ninclude \"c.td\"\ndef tail : A<1> { let f = 2; }".to_string()),
                ("/ws/b.td".into(), format!("// twin\n{}\ndef tb : B<2> {{ let f = 3; }}", menu[bi])),
                ("/ws/c.td".into(), format!("// twin\n{}\ndef tc : B<2> {{ let f = 3; }}", menu[bi])),
            ],
            root: "/ws/a.td".into(),
            stratum: "twins",
            focus: None,
        };
        if !f(ctx, &case) {
            return;
        }
    }
    // 2b. diamonds: the root includes b and c, c includes b again; statements follow the includes
    let c_stmts = ["class CC : A;", "def cc : B { let f = 3; }", "defvar A = B;"];
    for bi in 0..m {
        for ri in 0..m {
            for cs in c_stmts {
                if !ctx.mine() {
                    continue;
                }
                let case = WsCase {
                    files: vec![
                        ("/ws/a.td".into(), format!("include \"b.td\"\ninclude \"c.td\"\n{}\ndef tail : Missing;", menu[ri])),
                        ("/ws/b.td".into(), menu[bi].clone()),
                        ("/ws/c.td".into(), format!("// a longer file\n// than the others\ninclude \"b.td\"\n{cs}\ndef ctail : MissingC;")),
                    ],
                    root: "/ws/a.td".into(),
                    stratum: "diamond",
                    focus: None,
                };
                if !f(ctx, &case) {
                    return;
                }
            }
        }
    }
    // 2c. an include statement inside a block: whatever the server makes of it, every answer stays
    // inside the file it names (the included file is longer than the includer)
    let nests = [
        "class A;\ndefset list<A> S = { include \"b.td\" }\ndef after : A;",
        "let f = 1 in { include \"b.td\" }\ndef after : B;",
        "foreach i = [1] in { include \"b.td\" }",
        "if 1 then { include \"b.td\" } else { include \"b.td\" }",
        "multiclass M { include \"b.td\" }\nclass A { include \"b.td\" }",
    ];
    for nest in nests {
        for bi in 0..m {
            if !ctx.mine() {
                continue;
            }
            let case = WsCase {
                files: vec![
                    ("/ws/a.td".into(), nest.to_string()),
                    ("/ws/b.td".into(), format!("// a longer file than its includer, with names declared far from the start\n// é😀 and a second line\n{}\ndef farAway : A {{ int value = 1; }}", menu[bi])),
                ],
                root: "/ws/a.td".into(),
                stratum: "nested-include",
                focus: None,
            };
            if !f(ctx, &case) {
                return;
            }
        }
    }
    // 2d. a top-level let whose binding no record of its own body takes, followed by an include (and an
    // included file that ends in such a let, followed by more statements of the includer): whatever is
    // reported about the value stays in the file the value is written in
    for bi in 0..m {
        if !ctx.mine() {
            continue;
        }
        let decls = "class A<int a> { int f = a; }\nclass B<int a> { int f = a; }\n";
        let pending = "let f = \"a value of the wrong type, written far from the start of its file: é😀\" in def plain;\nlet f = [1, 2] in { def plain2; }\n";
        for (root, inc) in [
            (format!("{decls}{LONG_PREAMBLE}{pending}include \"b.td\"\ndef tail : A<1>;"), format!("{}\ndef op : B<2>;", menu[bi])),
            (format!("{decls}include \"b.td\"\n{}\ndef tail : A<1>;", menu[bi]), format!("{LONG_PREAMBLE}{pending}")),
        ] {
            let case = WsCase { files: vec![("/ws/a.td".into(), root), ("/ws/b.td".into(), inc)], root: "/ws/a.td".into(), stratum: "pending-let-include", focus: None };
            if !f(ctx, &case) {
                return;
            }
        }
    }
    // 2e. every integer position with every sign / separator / edge literal; deep nests of every value form
    // that can hold a value (the analysis of a nest is linear in its depth)
    for text in space::integer_position_texts() {
        if ctx.mine() && !f(ctx, &WsCase::single(&format!("class C<int a = 0> {{ bits<8> X = 0; }}\n{text}"), "integer-position")) {
            return;
        }
    }
    let nests: &[(&str, &str)] = &[
        ("!cond(true: ", ")"),
        ("!cond(", ": 1)"),
        ("!if(1, ", ", 0)"),
        ("!if(", ", 1, 0)"),
        ("[", "]"),
        ("!add(", ", 1)"),
        ("(op ", ")"),
        ("!foreach(e, [", "], e)"),
        ("!listconcat([", "], [])"),
        ("{", "}"),
        ("!head([", "])"),
        ("C<", ">.f"),
    ];
    for (open, close) in nests {
        for depth in [3usize, 12, 40] {
            if !ctx.mine() {
                continue;
            }
            let nest = format!("{}1{}", open.repeat(depth), close.repeat(depth));
            let text = format!("def op;\nclass C<int a = 0> {{ int f = a; }}\ndefvar v = {nest};\ndef t : C<{nest}> {{ int x = v; let f = {nest}; }}\n");
            if !f(ctx, &WsCase::single(&text, "value-nest")) {
                return;
            }
        }
    }
    // 3. seeds and small corpus files, whole
    for (name, text) in files.seeds.iter().chain(files.corpus.iter().filter(|(_, t)| t.len() <= small)) {
        if ctx.mine() && !f(ctx, &seed_workspace(&files, name, text, "seed")) {
            return;
        }
    }
    // 4. every prefix of every seed (thorough: and of the corpus files <= 4 KiB)
    let prefix_sources: Vec<&(String, String)> = match tier {
        Tier::Quick => files.seeds.iter().collect(),
        Tier::Thorough => files.seeds.iter().chain(files.corpus.iter().filter(|(_, t)| t.len() <= 4096)).collect(),
    };
    for (name, text) in prefix_sources {
        for (i, _) in text.char_indices() {
            if ctx.mine() {
                let mut case = seed_workspace(&files, name, &text[..i], "prefix");
                case.focus = Some(i);
                if !f(ctx, &case) {
                    return;
                }
            }
        }
    }
    // 5. every single-token edit of every seed
    let mut stop = false;
    for (name, text) in &files.seeds {
        space::token_mutations(text, |mutated| {
            if ctx.mine() {
                let mut case = seed_workspace(&files, name, mutated, "edit");
                // the edit point: first byte where the mutated text differs from the seed
                let common = text.bytes().zip(mutated.bytes()).take_while(|(a, b)| a == b).count();
                case.focus = Some(common.min(mutated.len()));
                if !f(ctx, &case) {
                    stop = true;
                    return false;
                }
            }
            true
        });
        if stop {
            return;
        }
    }
    // 6. CRLF / non-ASCII variants of seeds and of the stress menu
    for (name, text) in &files.seeds {
        space::variants(text, |v| {
            if ctx.mine() && !f(ctx, &seed_workspace(&files, name, v, "variant")) {
                stop = true;
                return false;
            }
            true
        });
        if stop {
            return;
        }
    }
    for a in 0..m {
        for b in 0..m {
            if !ctx.mine() {
                continue;
            }
            let text = format!("// é😀 {}\r\n{}\r\n/* ü */ {} // \u{2028}x", menu[a], menu[a], menu[b]);
            if !f(ctx, &WsCase::single(&text, "variant")) {
                return;
            }
        }
    }
    // 6a. a byte-order mark at the head of the file, followed at once by a comment with a 2-byte character
    for (name, text) in &files.seeds {
        if ctx.mine() && !f(ctx, &seed_workspace(&files, name, &format!("\u{feff}/*é*/{text}"), "variant")) {
            return;
        }
    }
    for a in 0..m {
        if ctx.mine() && !f(ctx, &WsCase::single(&format!("\u{feff}/*é*/{} /*ü*/ def after : A;", menu[a]), "variant")) {
            return;
        }
    }
    // 6b. every name followed by trivia: seeds and stress words of <= 2 statements, two fillers
    for filler in [" /*t*/", "\n  // t\n  "] {
        for (name, text) in &files.seeds {
            if ctx.mine() && !f(ctx, &seed_workspace(&files, name, &space::spaced(text, filler), "spaced")) {
                return;
            }
        }
        let total = tgv_core::words::count_upto(m as u64, 2);
        for idx in 0..total {
            if !ctx.mine() {
                continue;
            }
            tgv_core::words::decode(idx, m as u64, 2, &mut word);
            let text = word.iter().map(|&i| menu[i].as_str()).collect::<Vec<_>>().join("\n");
            if !f(ctx, &WsCase::single(&space::spaced(&text, filler), "spaced")) {
                return;
            }
        }
    }
    // 7. the big corpus files, whole (thorough)
    if tier == Tier::Thorough {
        for (name, text) in files.corpus.iter().filter(|(_, t)| t.len() > small) {
            if ctx.mine() && !f(ctx, &seed_workspace(&files, name, text, "corpus")) {
                return;
            }
        }
    }
}
