//! C07 — incremental consistency: explicit-state search over edit histories of
//! one live `AnalysisHost`, differential oracle against a fresh host.

use std::collections::BTreeSet;

use tgv_core::{guard, guard_on_stack, json, words, Ctx, Engine, Failure, Form, Tier, Value};

use crate::c03::STACK;
use crate::record::{first_difference, transcript};
use crate::ws::Ws;

pub struct C07;

pub const FILES: [&str; 4] = ["a", "b", "c", "sub/d"];

fn path(f: usize) -> String {
    format!("/ws/{}.td", FILES[f])
}

/// Two files with fixed texts in a subdirectory: d can become the root, e is found only from there.
const D_TEXT: &str = "include \"e.td\"\nclass KD : KE;\n";
const E_PATH: &str = "/ws/sub/e.td";
const E_TEXT: &str = "class KE;\n";

/// A second `e.td`, next to a, b and c: it comes into existence and disappears again (operation `Near`).
const E_NEAR_PATH: &str = "/ws/e.td";
const E_NEAR_TEXT: &str = "class KE;\nclass KEnear;\n";

fn all_files_with(variants: &[usize; 3], e_near: bool) -> Vec<(String, String)> {
    let mut v: Vec<(String, String)> = (0..3).map(|f| (path(f), variant(f, variants[f]))).collect();
    v.push((path(3), D_TEXT.to_string()));
    v.push((E_PATH.to_string(), E_TEXT.to_string()));
    if e_near {
        v.push((E_NEAR_PATH.to_string(), E_NEAR_TEXT.to_string()));
    }
    v
}

fn all_files(variants: &[usize; 3]) -> Vec<(String, String)> {
    all_files_with(variants, false)
}

pub const VARIANTS: usize = 6;

/// Text variants of file `f`; the include target is the next file (a->b->c->a), in variant 4 the
/// previous one - at the same byte range as in variant 1, so only the path text differs.
pub fn variant(f: usize, v: usize) -> String {
    let x = FILES[f];
    let next = FILES[(f + 1) % 3];
    let prev = FILES[(f + 2) % 3];
    match v {
        4 => format!("include \"{prev}.td\"\nclass K{x};\nclass {x}4 : K{prev};\n"),
        // a file that exists only in the subdirectory: not found from here, whatever was the root before
        5 => format!("include \"e.td\"\nclass K{x};\nclass {x}5 : KE;\n"),
        // (an anonymous def with a field of its own: its generated name shows in hover)
        0 => format!("class K{x};\nclass {x}0;\ndef {{ int depth{x} = 1; }}\n"),
        1 => format!("include \"{next}.td\"\nclass K{x};\nclass {x}1 : K{next};\n"),
        2 => format!("// moved\n// down\ninclude \"{next}.td\"\nclass K{x};\ndef {x}2 : K{next};\ndef : K{x} {{ int deep{x} = 2; }}\n"),
        _ => format!("class K{x};\ndef {x}3 : Missing;\n"),
    }
}

#[derive(Debug, Clone, Copy, PartialEq, Eq)]
pub enum Op {
    /// change the text of a file, keep the root
    Edit(usize, usize),
    /// make a file the root (re-sending its current text, as the server does)
    Root(usize),
    /// a file that is not the root changes on disk only; the host learns of it when the
    /// root is re-selected (what the server does on the next notification)
    Disk(usize, usize),
    /// the file `e.td` next to a, b and c is created (true) or deleted (false) on disk; the host learns of it
    /// when the root is re-selected
    Near(bool),
}

pub fn ops() -> Vec<Op> {
    let mut v = Vec::new();
    // base alphabet first: plain / includes next / includes previous (same range) for each file, and root switches
    for f in 0..3 {
        for var in [0, 1, 4] {
            v.push(Op::Edit(f, var));
        }
    }
    for f in 0..3 {
        v.push(Op::Root(f));
    }
    for f in 0..3 {
        for var in [2, 3] {
            v.push(Op::Edit(f, var));
        }
    }
    for f in 0..3 {
        for var in 0..5 {
            v.push(Op::Disk(f, var));
        }
    }
    // the subdirectory: the include that resolves only from there, and the root switch into it
    for f in 0..3 {
        v.push(Op::Edit(f, 5));
    }
    v.push(Op::Root(3));
    for f in 0..3 {
        v.push(Op::Disk(f, 5));
    }
    v.push(Op::Near(true));
    v.push(Op::Near(false));
    v
}

/// The first 12 operations form the base alphabet of the deeper pass.
pub const BASE_OPS: usize = 12;

fn index_of(op: Op) -> usize {
    ops().iter().position(|o| *o == op).expect("operation of the menu")
}

/// The two-file alphabet of the deepest pass: a with and without its include of b, both as roots, b's text
/// changing under the host (on disk, seen by the include walk only) and through it, between two texts.
pub fn deep_ops() -> Vec<usize> {
    [Op::Edit(0, 0), Op::Edit(0, 1), Op::Root(0), Op::Root(1), Op::Disk(1, 0), Op::Disk(1, 3), Op::Edit(1, 0), Op::Edit(1, 3)].into_iter().map(index_of).collect()
}

/// A start state with a past: b has been the root once (the host has been handed its text), a is the root
/// again and includes b (the include walk has handed the host b's text a second time).
pub fn deep_prefix() -> Vec<usize> {
    [Op::Root(1), Op::Root(0), Op::Edit(0, 1)].into_iter().map(index_of).collect()
}

fn show(op: Op) -> String {
    match op {
        Op::Edit(f, v) => format!("Edit({},v{v})", FILES[f]),
        Op::Root(f) => format!("Root({})", FILES[f]),
        Op::Disk(f, v) => format!("Disk({},v{v})", FILES[f]),
        Op::Near(true) => "Create(e.td)".to_string(),
        Op::Near(false) => "Delete(e.td)".to_string(),
    }
}

fn show_history(h: &[usize]) -> String {
    let o = ops();
    h.iter().map(|&i| show(o[i])).collect::<Vec<_>>().join(" ; ")
}

/// Runs one history on a live host; after every step (or only after the last)
/// compares the live transcript with a fresh host's. Returns the failure, the
/// canonical states visited and the number of comparisons made.
pub fn run_history(h: &[usize], compare_every_step: bool) -> (Option<(String, String)>, Vec<(usize, [usize; 3])>, u64) {
    let all = ops();
    let mut variants = [0usize; 3];
    let mut root = 0usize;
    let files0 = all_files(&variants);
    let mut live = Ws::new(&files0, &path(0));
    let mut states = vec![(root, variants)];
    let mut compares = 0;
    let mut e_near = false;
    for (k, &i) in h.iter().enumerate() {
        match all[i] {
            Op::Edit(f, v) => {
                variants[f] = v;
                live.edit(&path(f), &variant(f, v));
            }
            Op::Root(f) => {
                root = f;
                let text = if f == 3 { D_TEXT.to_string() } else { variant(f, variants[f]) };
                live.touch(&path(f), &text);
            }
            Op::Disk(f, v) => {
                if f == root {
                    // the root's buffer is the editor's; a disk change of it is C12's subject
                    return (None, states, compares);
                }
                variants[f] = v;
                live.fs.set(&path(f), &variant(f, v));
                let r = live.root;
                live.host.set_root_file(&mut live.fs, r);
            }
            Op::Near(present) => {
                e_near = present;
                if present {
                    live.fs.set(E_NEAR_PATH, E_NEAR_TEXT);
                } else {
                    live.fs.remove(E_NEAR_PATH);
                }
                let r = live.root;
                live.host.set_root_file(&mut live.fs, r);
            }
        }
        states.push((root, variants));
        if compare_every_step || k + 1 == h.len() {
            compares += 1;
            let files = all_files_with(&variants, e_near);
            let fresh = Ws::new(&files, &path(root));
            let t_live = transcript(&live);
            let t_fresh = transcript(&fresh);
            if t_live != t_fresh {
                let (l, r) = first_difference(&t_live, &t_fresh).unwrap_or_default();
                return (
                    Some((
                        "history-dependent".to_string(),
                        format!(
                            "after step {} ({}): state root={} variants={:?}; live host answers `{l}`, a fresh host `{r}`",
                            k + 1,
                            show(all[i]),
                            FILES[root],
                            variants
                        ),
                    )),
                    states,
                    compares,
                );
            }
        }
    }
    (None, states, compares)
}

fn eval(h: &[usize], every: bool) -> Vec<Failure> {
    let r = guard(|| run_history(h, every).0);
    let mk = |c: &str, d: String| Failure::new(c, show_history(h), d, json!({ "history": h, "witness": show_history(h) }));
    match r {
        Ok(None) => vec![],
        Ok(Some((c, d))) => vec![mk(&c, d)],
        Err(p) => vec![mk("panic", format!("{} at {}", p.message, p.location))],
    }
}

impl Engine for C07 {
    fn id(&self) -> &'static str {
        "C07"
    }

    fn form(&self) -> Form {
        Form::H
    }

    fn rule(&self, tier: Tier) -> String {
        format!(
            "every history of <= {} operations over 42 operations (Edit(file, variant) for 3 files x 6 text variants keeping the root; Root(file) for the three files and for a fourth in a subdirectory; Disk(file, variant) = a non-root file changes on disk and the root is re-selected; Create / Delete of a file `e.td` that variant 5 includes: it is missing until it is created) \
             and every history of exactly {} operations over 12 base operations (Edit to plain / include-next / include-previous, Root), starting from root a, all files plain; \
             and every history of <= {} operations over a two-file alphabet of 8 (a with / without its include of b, a and b as roots, b plain / faulty through the host and on disk only) from that start and, <= {} operations, from the state after Root(b) ; Root(a) ; Edit(a, includes b) - a start with a past, in which the host has been handed b's text both by the client and by the include walk; \
             variants: plain (with an anonymous def that has a field) / includes the next file (a->b->c->a, so cycles arise) / same with the include statement moved down two lines / a faulty def / includes the PREVIOUS file at the same byte range as variant 1 (only the path differs) / includes a file that exists only in the subdirectory of the fourth root (it resolves from there, never from here); \
             after the last operation of every history (every history is a prefix of longer ones, so every step of every history is compared) the full query transcript of the live host \
             equals that of a fresh host given only the current texts and root. states = distinct (root, variants) configurations reached; transitions = operations applied; non-trivial = histories with an include present at some point.",
            tier.pick(3, 4),
            tier.pick(4, 5),
            tier.pick(4, 6),
            tier.pick(5, 6)
        )
    }

    fn assumptions(&self) -> Vec<String> {
        vec![
            "operations follow the protocol the server uses (set_file_content then set_root_file); a bare set_root_file on a file whose text was never set is outside the API's precondition".into(),
            "transcripts map file ids to paths and sort hash-ordered results; completion lists are compared by size and class items".into(),
        ]
    }

    fn trace_always(&self) -> bool {
        true
    }

    fn explore(&self, tier: Tier, ctx: &mut Ctx) {
        let (shard, n) = (ctx.shard, ctx.nshards);
        let r = guard_on_stack(STACK, || {
            let mut seen: BTreeSet<(usize, [usize; 3])> = BTreeSet::new();
            // pass 1: all 27 operations to depth d-1; pass 2: base operations at depth d
            let plans = [(ops().len(), 1, tier.pick(3, 4)), (BASE_OPS, tier.pick(4, 5), tier.pick(4, 5))];
            // pass 3: the two-file alphabet, deeper, from the initial state and from a state with a past
            let deep = deep_ops();
            let prefix = deep_prefix();
            let deep_plans: [(&[usize], u32); 2] = [(&[], tier.pick(4, 6)), (&prefix, tier.pick(5, 6))];
            for (pre, depth) in deep_plans {
                let mut h: Vec<usize> = Vec::new();
                words::for_each_word(deep.len(), depth, shard, n, |_, w| {
                    if w.is_empty() {
                        return true;
                    }
                    h.clear();
                    h.extend_from_slice(pre);
                    h.extend(w.iter().map(|&i| deep[i]));
                    ctx.trace(|| json!({ "history": h, "witness": show_history(&h) }));
                    let r = guard(|| run_history(&h, false));
                    ctx.case(true);
                    ctx.add("traces", 1);
                    ctx.add("deep_two_file_histories", 1);
                    ctx.add("transitions", h.len() as u64);
                    match r {
                        Ok((f, _, compares)) => {
                            ctx.add("comparisons", compares);
                            if let Some((c, d)) = f {
                                ctx.fail(Failure::new(&c, show_history(&h), d, json!({ "history": h, "witness": show_history(&h) })));
                            }
                        }
                        Err(p) => ctx.fail(Failure::new("panic", show_history(&h), format!("{} at {}", p.message, p.location), json!({ "history": h, "witness": show_history(&h) }))),
                    }
                    !ctx.expired()
                });
            }
            for (k, min_len, depth) in plans {
            words::for_each_word(k, depth, shard, n, |_, h| {
                if h.len() < min_len {
                    return true;
                }
                ctx.trace(|| json!({ "history": h, "witness": show_history(h) }));
                let all = ops();
                let nontrivial = h.iter().any(|&i| matches!(all[i], Op::Edit(_, 1 | 2 | 4) | Op::Disk(_, 1 | 2 | 4)));
                let r = guard(|| run_history(h, false));
                ctx.case(nontrivial);
                ctx.add("traces", 1);
                ctx.add("transitions", h.len() as u64);
                match r {
                    Ok((f, states, compares)) => {
                        ctx.add("comparisons", compares);
                        for s in states {
                            if seen.insert(s) {
                                ctx.add("states_seen_by_worker", 1);
                            }
                        }
                        if let Some((c, d)) = f {
                            ctx.fail(Failure::new(&c, show_history(h), d, json!({ "history": h, "witness": show_history(h) })));
                        }
                    }
                    Err(p) => ctx.fail(Failure::new(
                        "panic",
                        show_history(h),
                        format!("{} at {}", p.message, p.location),
                        json!({ "history": h, "witness": show_history(h) }),
                    )),
                }
                if nontrivial {
                    ctx.sample(|| json!({ "history": show_history(h) }));
                }
                !ctx.expired()
            });
            }
            ctx.max("states", seen.len() as u64);
        });
        if let Err(p) = r {
            panic!("harness panic: {} at {}", p.message, p.location);
        }
    }

    fn eval_case(&self, case: &Value) -> Vec<Failure> {
        let h: Vec<usize> = case["history"].as_array().map(|a| a.iter().filter_map(|x| x.as_u64()).map(|x| x as usize).collect()).unwrap_or_default();
        guard_on_stack(STACK, || eval(&h, true)).unwrap_or_default()
    }

    fn shrink(&self, case: &Value, _clause: &str) -> Vec<Value> {
        let h: Vec<usize> = case["history"].as_array().map(|a| a.iter().filter_map(|x| x.as_u64()).map(|x| x as usize).collect()).unwrap_or_default();
        tgv_core::shrink::deletions(&h)
            .into_iter()
            .map(|d| json!({ "history": d, "witness": show_history(&d) }))
            .collect()
    }
}
