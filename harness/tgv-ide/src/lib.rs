pub mod c15;
pub mod ws;
