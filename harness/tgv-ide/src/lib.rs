pub mod c03;
pub mod c06;
pub mod c15;
pub mod c17;
pub mod queries;
pub mod ws;
pub mod wspace;
