use tgv_ide::*;

fn main() {
    ws::clean_env();
    tgv_core::main_for(&[&c03::C03, &c05::C05, &c06::C06, &c07::C07, &c13::C13, &c15::C15, &c16::C16, &c17::C17, &c18::C18, &c19::C19, &c20::C20]);
}
