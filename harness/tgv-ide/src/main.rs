use tgv_ide::*;

fn main() {
    ws::clean_env();
    tgv_core::main_for(&[&c15::C15]);
}
