fn main(){}
