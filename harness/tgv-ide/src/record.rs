//! Canonical, id-free transcript of the full query set: file ids are mapped to
//! paths and hash-ordered results are sorted, so that two hosts that analysed the
//! same texts produce byte-identical transcripts.

use std::collections::HashMap;
use std::fmt::Write;

use ide::analysis::Analysis;
use ide::file_system::{FileId, FilePosition, FileRange};
use ide::handlers::completion::CompletionItem;
use ide::handlers::diagnostics::Diagnostic;
use ide::handlers::document_link::DocumentLink;
use ide::handlers::document_symbol::DocumentSymbol;
use ide::handlers::folding_range::FoldingRange;
use ide::handlers::hover::Hover;
use ide::handlers::inlay_hint::InlayHint;

use crate::queries::{run_all, Cursor, Obs, Plan};
use crate::ws::Ws;

#[derive(Default)]
pub struct Recorder {
    pub out: String,
}

fn fr(ws: &Ws, r: &FileRange) -> String {
    format!("{}:{}..{}", ws.fs.path_of(r.file), usize::from(r.range.start()), usize::from(r.range.end()))
}

fn sym(out: &mut String, s: &DocumentSymbol, depth: usize) {
    let _ = writeln!(
        out,
        "{}sym {:?} {} {} {}..{}",
        "  ".repeat(depth),
        s.kind,
        s.name,
        s.typ,
        usize::from(s.range.start()),
        usize::from(s.range.end())
    );
    for c in &s.children {
        sym(out, c, depth + 1);
    }
}

impl Obs for Recorder {
    fn diagnostics(&mut self, ws: &Ws, d: &HashMap<FileId, Vec<Diagnostic>>) {
        let mut files: Vec<(String, Vec<String>)> = d
            .iter()
            .map(|(f, list)| {
                let mut v: Vec<String> = list.iter().map(|x| format!("{} {}", fr(ws, &x.location), x.message)).collect();
                v.sort();
                (ws.fs.path_of(*f), v)
            })
            .collect();
        files.sort();
        for (p, v) in files {
            let _ = writeln!(self.out, "diagnostics {p}");
            for x in v {
                let _ = writeln!(self.out, "  {x}");
            }
        }
    }
    fn symbols(&mut self, ws: &Ws, file: FileId, r: &Option<Vec<DocumentSymbol>>) {
        let _ = writeln!(self.out, "symbols {} {}", ws.fs.path_of(file), if r.is_some() { "some" } else { "none" });
        for s in r.iter().flatten() {
            sym(&mut self.out, s, 1);
        }
    }
    fn folding(&mut self, ws: &Ws, file: FileId, r: &Option<Vec<FoldingRange>>) {
        let _ = writeln!(self.out, "folding {}", ws.fs.path_of(file));
        for x in r.iter().flatten() {
            let _ = writeln!(self.out, "  {}..{}", usize::from(x.range.start()), usize::from(x.range.end()));
        }
    }
    fn links(&mut self, ws: &Ws, file: FileId, r: &Option<Vec<DocumentLink>>) {
        let _ = writeln!(self.out, "links {}", ws.fs.path_of(file));
        for x in r.iter().flatten() {
            let _ = writeln!(self.out, "  {}..{} -> {}", usize::from(x.range.start()), usize::from(x.range.end()), ws.fs.path_of(x.target));
        }
    }
    fn goto(&mut self, ws: &Ws, _a: &Analysis, pos: FilePosition, r: &Option<FileRange>) {
        if let Some(x) = r {
            let _ = writeln!(self.out, "goto {}@{} -> {}", ws.fs.path_of(pos.file), usize::from(pos.position), fr(ws, x));
        }
    }
    fn refs(&mut self, ws: &Ws, _a: &Analysis, pos: FilePosition, r: &Option<Vec<FileRange>>) {
        if let Some(list) = r {
            let mut v: Vec<String> = list.iter().map(|x| fr(ws, x)).collect();
            v.sort();
            let _ = writeln!(self.out, "refs {}@{} -> {}", ws.fs.path_of(pos.file), usize::from(pos.position), v.join(" "));
        }
    }
    fn hover(&mut self, ws: &Ws, pos: FilePosition, r: &Option<Hover>) {
        if let Some(h) = r {
            let _ = writeln!(self.out, "hover {}@{} -> {:?} {:?}", ws.fs.path_of(pos.file), usize::from(pos.position), h.signature, h.document);
        }
    }
    fn completion(&mut self, ws: &Ws, pos: FilePosition, bang: bool, r: &Option<Vec<CompletionItem>>) {
        if let Some(list) = r {
            let mut v: Vec<String> = list.iter().map(|c| format!("{}|{:?}|{:?}", c.label, c.insert_text_snippet, c.kind)).collect();
            v.sort();
            // the vocabulary lists are long: record a digest plus the class items
            let classes: Vec<&String> = v.iter().filter(|s| s.ends_with("Class")).collect();
            let _ = writeln!(
                self.out,
                "completion{} {}@{} -> n={} classes={:?}",
                if bang { "!" } else { "" },
                ws.fs.path_of(pos.file),
                usize::from(pos.position),
                v.len(),
                classes
            );
        }
    }
    fn hints(&mut self, ws: &Ws, range: FileRange, r: &Option<Vec<InlayHint>>) {
        if let Some(list) = r {
            if list.is_empty() {
                return;
            }
            let mut v: Vec<String> = list.iter().map(|h| format!("{}:{}", usize::from(h.position), h.label)).collect();
            v.sort();
            let _ = writeln!(self.out, "hints {} -> {}", fr(ws, &range), v.join(" "));
        }
    }
}

pub fn transcript(ws: &Ws) -> String {
    let a = ws.analysis();
    let mut rec = Recorder::default();
    let mut cur = Cursor::default();
    run_all(ws, &a, &mut rec, &mut cur, Plan::Full);
    rec.out
}

/// First differing line of two transcripts.
pub fn first_difference(a: &str, b: &str) -> Option<(String, String)> {
    let mut la = a.lines();
    let mut lb = b.lines();
    loop {
        match (la.next(), lb.next()) {
            (None, None) => return None,
            (x, y) if x == y => continue,
            (x, y) => return Some((x.unwrap_or("<end>").to_string(), y.unwrap_or("<end>").to_string())),
        }
    }
}
