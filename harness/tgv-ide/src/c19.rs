//! C19 — hover and inlay hints describe the declaration they point at.

use ide::file_system::{FilePosition, FileRange};
use syntax::parser::{TextRange, TextSize};
use tgv_core::{guard, guard_on_stack, json, Ctx, Engine, Failure, Tier, Value};
use tgv_syntax::space::crude_tokens;

use crate::c03::STACK;
use crate::c05::{file_ids, program_of, shrink_program, DIR};
use crate::pm::{emit, DeclKind, Emitted, Program};
use crate::pmgen::{for_each_path, hover_programs, scope_program, structure_programs, well_scoped};
use crate::ws::Ws;

pub struct C19;

fn line_of(em: &Emitted, file: usize, at: usize) -> String {
    let t = &em.files[file].text;
    let at = at.min(t.len());
    let ls = t[..at].rfind('\n').map(|i| i + 1).unwrap_or(0);
    let le = t[at..].find('\n').map(|i| at + i).unwrap_or(t.len());
    format!("{}:{} `{}`", em.files[file].name, at, t[ls..le].trim())
}

pub fn check(em: &Emitted, all_subranges: bool) -> (Vec<(String, String)>, u64) {
    let files = em.workspace(DIR);
    let ws = Ws::new(&files, &files[0].0);
    let a = ws.analysis();
    let ids = file_ids(&ws, em);
    let mut out: Vec<(String, String)> = Vec::new();
    let mut push = |c: &str, d: String| {
        if !out.iter().any(|(cc, _)| cc == c) {
            out.push((c.to_string(), d));
        }
    };
    let mut checked = 0;
    // hover on every resolved identifier
    for occ in em.occs.iter().filter(|o| o.judged) {
        let (Some(fid), Some(d)) = (ids[occ.file], occ.target) else { continue };
        let decl = &em.decls[d];
        for off in occ.range.0..occ.range.1 {
            checked += 1;
            let here = line_of(em, occ.file, off);
            let Some(h) = a.hover(FilePosition::new(fid, TextSize::from(off as u32))) else {
                push("no-hover", format!("{here}: no hover on a resolved identifier ({:?} {})", decl.kind, decl.name));
                break;
            };
            let sig = h.signature.clone();
            let words: Vec<&str> = sig.split(|c: char| !(c.is_alphanumeric() || c == '_' || c == '<' || c == '>')).filter(|w| !w.is_empty()).collect();
            let has_word = |w: &str| sig.split(|c: char| !(c.is_alphanumeric() || c == '_')).any(|x| x == w);
            let _ = words;
            if !has_word(&decl.name) {
                push("hover-name", format!("{here}: hover shows {sig:?}, which does not name {:?}", decl.name));
            }
            let keyword = match decl.kind {
                DeclKind::Class => Some("class"),
                DeclKind::Def => Some("def"),
                DeclKind::Multiclass => Some("multiclass"),
                DeclKind::Defm => Some("defm"),
                _ => None,
            };
            if let Some(k) = keyword {
                if !has_word(k) {
                    push("hover-kind", format!("{here}: hover shows {sig:?} for a {k}"));
                }
            }
            if let (Some(ty), DeclKind::TemplateArg | DeclKind::Field | DeclKind::Defset) = (&decl.ty, decl.kind) {
                if !sig.contains(&ty.show()) {
                    push("hover-type", format!("{here}: hover shows {sig:?}, declared type is {}", ty.show()));
                }
            }
            let want_doc = if decl.doc.is_empty() { None } else { Some(decl.doc.join("\n")) };
            if h.document != want_doc {
                push("hover-doc", format!("{here}: hover documents {:?}; the comment lines directly above the declaration of {} are {:?}", h.document, decl.name, want_doc));
            }
        }
    }
    // hover and go-to-definition agree on the owner: where hover prints `Owner::name`, the declaration that
    // go-to-definition lands on lies in the body of the class or named def `Owner` (no expected value needed)
    for occ in em.occs.iter() {
        let Some(fid) = ids[occ.file] else { continue };
        let pos = FilePosition::new(fid, TextSize::from(occ.range.0 as u32));
        let (Some(h), Some(target)) = (a.hover(pos), a.goto_definition(pos)) else { continue };
        let Some((owner_part, _)) = h.signature.split_once("::") else { continue };
        let owner = owner_part.rsplit(|c: char| !(c.is_alphanumeric() || c == '_')).next().unwrap_or("");
        let Some(tfile) = em.files.iter().zip(ids.iter()).find(|(_, id)| **id == Some(target.file)).map(|(f, _)| f) else { continue };
        let parse = syntax::parse(&tfile.text);
        let Some(tok) = parse.syntax_node().token_at_offset(target.range.start()).right_biased() else { continue };
        let enclosing = tok.parent_ancestors().find(|n| matches!(n.kind(), syntax::syntax_kind::SyntaxKind::Class | syntax::syntax_kind::SyntaxKind::Def));
        let Some(node) = enclosing else { continue };
        let text = node.text().to_string();
        let mut words = text.split(|c: char| !(c.is_alphanumeric() || c == '_')).filter(|w| !w.is_empty());
        let kw = words.next().unwrap_or("");
        let name = words.next().unwrap_or("");
        // (an anonymous def, a pasted name or a def inside a multiclass has no plain name to compare)
        let plain = (kw == "class" || kw == "def") && text[kw.len()..].trim_start().starts_with(name) && !name.is_empty() && !text[kw.len()..].trim_start()[name.len()..].trim_start().starts_with('#');
        checked += 1;
        if plain && !owner.is_empty() && owner != name && !name.starts_with('_') {
            push("hover-owner", format!("{}: hover shows {:?}, but go-to-definition lands in the body of `{kw} {name}`", line_of(em, occ.file, occ.range.0), h.signature));
        }
    }
    // inlay hints
    for (i, f) in em.files.iter().enumerate() {
        let Some(fid) = ids[i] else { continue };
        let mut want: Vec<(usize, String)> = f.hints.clone();
        want.sort();
        let range = |s: usize, e: usize| FileRange::new(fid, TextRange::new(TextSize::from(s as u32), TextSize::from(e as u32)));
        let mut got: Vec<(usize, String)> = a.inlay_hint(range(0, f.text.len())).unwrap_or_default().iter().map(|h| (usize::from(h.position), h.label.clone())).collect();
        got.sort();
        checked += 1;
        if got != want {
            let missing: Vec<String> = want.iter().filter(|w| !got.contains(w)).map(|(p, l)| format!("{l} at {}", line_of(em, i, *p))).collect();
            let extra: Vec<String> = got.iter().filter(|g| !want.contains(g)).map(|(p, l)| format!("{l} at {}", line_of(em, i, *p))).collect();
            push("inlay-hints", format!("{}: whole-file hints: missing {missing:?}, unexpected {extra:?}", f.name));
        }
        // every token-boundary sub-range: returned hints are expected ones and lie inside the range
        let mut b: Vec<usize> = crude_tokens(&f.text).into_iter().flat_map(|(s, e)| [s, e]).collect();
        b.push(0);
        b.push(f.text.len());
        b.sort_unstable();
        b.dedup();
        // ranges that begin or end within two bytes of a hint (inside the name or the argument it belongs
        // to): from the start of the file, to its end, and between two such offsets
        let mut near: Vec<usize> = want.iter().flat_map(|(h, _)| [h.saturating_sub(2), h.saturating_sub(1), *h, (h + 1).min(f.text.len()), (h + 2).min(f.text.len())]).collect();
        near.retain(|o| f.text.is_char_boundary(*o));
        near.sort_unstable();
        near.dedup();
        let mut near_ranges: Vec<(usize, usize)> = Vec::new();
        for &o in &near {
            near_ranges.push((0, o));
            near_ranges.push((o, f.text.len()));
        }
        for w in near.windows(2) {
            near_ranges.push((w[0], w[1]));
        }
        for (s, e) in near_ranges {
            checked += 1;
            for h in a.inlay_hint(range(s, e)).unwrap_or_default() {
                let p = usize::from(h.position);
                if !want.contains(&(p, h.label.clone())) {
                    push("inlay-hint-unexpected", format!("{}: range {s}..{e}: hint {:?} at {} is not a hint of the file", f.name, h.label, line_of(em, i, p)));
                } else if p < s || p > e {
                    push("inlay-hint-outside-range", format!("{}: range {s}..{e}: hint {:?} at offset {p} ({}) lies outside the requested range", f.name, h.label, line_of(em, i, p)));
                }
            }
        }
        let step = if all_subranges { 1 } else { 3 };
        if !STEPPED.with(|s| s.get()) {
            b.clear();
        }
        for (k, &s) in b.iter().enumerate() {
            for &e in b[k..].iter().step_by(step) {
                checked += 1;
                for h in a.inlay_hint(range(s, e)).unwrap_or_default() {
                    let p = usize::from(h.position);
                    if !want.contains(&(p, h.label.clone())) {
                        push("inlay-hint-unexpected", format!("{}: range {s}..{e}: hint {:?} at {} is not a hint of the file", f.name, h.label, line_of(em, i, p)));
                    } else if p < s || p > e {
                        push("inlay-hint-outside-range", format!("{}: range {s}..{e} ({:?}): hint {:?} at {} lies outside the requested range", f.name, &f.text[s..e.min(f.text.len())].chars().take(30).collect::<String>(), h.label, line_of(em, i, p)));
                    }
                }
            }
        }
    }
    (out, checked)
}

thread_local! {
    static STEPPED: std::cell::Cell<bool> = const { std::cell::Cell::new(true) };
}

pub fn eval_program(p: &Program, all_subranges: bool, trivia: bool) -> (Vec<Failure>, u64) {
    eval_program_with(p, all_subranges, trivia, true)
}

/// `stepped`: also the (stepped) enumeration of token-boundary sub-ranges; without it only the whole file
/// and the ranges near hints are requested (quick tier, comment layout)
pub fn eval_program_with(p: &Program, all_subranges: bool, trivia: bool, stepped: bool) -> (Vec<Failure>, u64) {
    STEPPED.with(|s| s.set(stepped));
    let em = crate::pm::emit_with(p, trivia);
    let witness: String = em.files.iter().map(|f| format!("// {}\n{}", f.name, f.text)).collect::<Vec<_>>().join("\n");
    let case = json!({ "program": p, "trivia": trivia, "witness": witness });
    match guard(|| check(&em, all_subranges)) {
        Ok((problems, n)) => (problems.into_iter().map(|(c, d)| Failure::new(&c, witness.clone(), d, case.clone())).collect(), n),
        Err(pn) => (vec![Failure::new("crash", witness, format!("{} at {}", pn.message, pn.location), case)], 0),
    }
}

impl Engine for C19 {
    fn id(&self) -> &'static str {
        "C19"
    }

    fn rule(&self, tier: Tier) -> String {
        format!(
            "hover programs: doc comments of 0..2 lines, attached or detached by a blank line, and four shapes with a banner comment above a blank line above the documentation (only the lines below the blank line document), on class / field / def / multiclass declarations x class references with 0..3 positional arguments followed by 0..1 named ones in parent lists, class values, nested class values and defset members x field overrides x 2 layouts; \
             plus the declaration-structure programs (wrapper depth <= {}) and the well-scoped scope programs (depth <= {}). Every program is printed twice: plainly and with a comment after every identifier. Hover is requested at every offset of every resolved identifier; inlay hints for the whole file, for {} sub-range between token boundaries (quick: plain layout only) and for the ranges that begin or end within two bytes of a hint. \
             non-trivial = every program; distinct by construction.",
            tier.pick(1, 3),
            tier.pick(1, 2),
            tier.pick("every third", "every")
        )
    }

    fn assumptions(&self) -> Vec<String> {
        vec![
            "where hover prints `Owner::name`, go-to-definition lands in the body of the class or plainly named def `Owner`; hover must name the symbol, contain the kind keyword for class/def/multiclass/defm and the declared type for template arguments, fields and defsets; inferred types of variables are not judged".into(),
            "a hint is inside a range when start <= position <= end".into(),
        ]
    }

    fn trace_always(&self) -> bool {
        true
    }

    fn explore(&self, tier: Tier, ctx: &mut Ctx) {
        let all = tier == Tier::Thorough;
        let r = guard_on_stack(STACK, || {
            let mut run = |ctx: &mut Ctx, p: &Program, all: bool| -> bool {
                if !ctx.mine() {
                    return true;
                }
                for trivia in [false, true] {
                    ctx.trace(|| json!({ "program": p, "trivia": trivia }));
                    let (fails, n) = eval_program_with(p, all, trivia, all || !trivia);
                    ctx.case(true);
                    ctx.add("queries_checked", n);
                    for f in fails {
                        ctx.fail(f);
                    }
                }
                ctx.sample(|| json!(emit(p).files[0].text.chars().take(300).collect::<String>()));
                !ctx.expired()
            };
            hover_programs(|p| run(ctx, p, all));
            structure_programs(tier.pick(1, 3), |p| run(ctx, p, all));
            for_each_path(tier.pick(1, 2), |_, path| {
                for layout in 0..2 {
                    let p = well_scoped(&scope_program(path, 6, layout));
                    if !run(ctx, &p, false) {
                        return false;
                    }
                }
                true
            });
        });
        if let Err(p) = r {
            panic!("harness panic: {} at {}", p.message, p.location);
        }
    }

    fn eval_case(&self, case: &Value) -> Vec<Failure> {
        let Some(p) = program_of(case) else { return vec![] };
        let trivia = case["trivia"].as_bool().unwrap_or(false);
        guard_on_stack(STACK, || eval_program(&p, true, trivia).0).unwrap_or_default()
    }

    fn shrink(&self, case: &Value, _clause: &str) -> Vec<Value> {
        let Some(p) = program_of(case) else { return vec![] };
        let trivia = case["trivia"].as_bool().unwrap_or(false);
        shrink_program(&p)
            .into_iter()
            .filter(|q| emit(q).occs.iter().all(|o| o.target.is_some() || !o.judged))
            .map(|q| json!({ "program": q, "trivia": trivia }))
            .collect()
    }
}
