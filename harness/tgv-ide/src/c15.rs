//! C15 — preprocessor: conditional regions select exactly the enabled tokens.
//!
//! The space is a small state machine enumerated whole: every word over nine
//! directive/marker symbols up to the tier's length, one symbol per line.

use std::collections::BTreeSet;

use ide::handlers::document_symbol::DocumentSymbolKind;
use syntax::syntax_kind::SyntaxKind;
use tgv_core::words;
use tgv_core::{guard, json, Ctx, Engine, Failure, Tier, Value};
use tgv_syntax::{c01, c02};

use crate::ws::Ws;

pub struct C15;

pub const SYMS: &[&str] = &[
    "#define A", "#define B", "#ifdef A", "#ifdef B", "#ifndef A", "#ifndef B", "#else", "#endif", "M",
];

#[derive(Debug, Clone, Copy, PartialEq, Eq)]
pub enum Nesting {
    Well,
    /// well-formed so far but a conditional is still open at EOF
    Unterminated,
    /// stray #else / #endif or a second #else: the property is silent
    Ill,
}

#[derive(Debug, Clone)]
pub struct Reference {
    pub nesting: Nesting,
    /// per symbol position: is the line enabled
    pub enabled: Vec<bool>,
    /// per gap 0..=len: would a line inserted there be enabled
    pub gap_enabled: Vec<bool>,
}

/// Reference evaluation of the conditionals (spec/lexical.md, "Preprocessing").
pub fn reference(word: &[usize]) -> Reference {
    struct Frame {
        parent_enabled: bool,
        cond: bool,
        in_else: bool,
    }
    let mut defs: BTreeSet<&str> = BTreeSet::new();
    let mut stack: Vec<Frame> = Vec::new();
    let mut enabled_at = Vec::with_capacity(word.len());
    let mut ill = false;
    let active = |f: &Frame| f.parent_enabled && (f.cond != f.in_else);
    let mut gap_enabled = Vec::with_capacity(word.len() + 1);
    for &s in word {
        let enabled = stack.last().map(active).unwrap_or(true);
        gap_enabled.push(enabled);
        let sym = SYMS[s];
        if let Some(name) = sym.strip_prefix("#define ") {
            if enabled {
                defs.insert(name);
            }
            enabled_at.push(enabled);
        } else if let Some(name) = sym.strip_prefix("#ifdef ") {
            stack.push(Frame { parent_enabled: enabled, cond: defs.contains(name), in_else: false });
            enabled_at.push(enabled);
        } else if let Some(name) = sym.strip_prefix("#ifndef ") {
            stack.push(Frame { parent_enabled: enabled, cond: !defs.contains(name), in_else: false });
            enabled_at.push(enabled);
        } else if sym == "#else" {
            match stack.last_mut() {
                Some(f) if !f.in_else => f.in_else = true,
                _ => ill = true,
            }
            enabled_at.push(true);
        } else if sym == "#endif" {
            if stack.pop().is_none() {
                ill = true;
            }
            enabled_at.push(true);
        } else {
            enabled_at.push(enabled);
        }
    }
    gap_enabled.push(stack.last().map(active).unwrap_or(true));
    let nesting = if ill {
        Nesting::Ill
    } else if !stack.is_empty() {
        Nesting::Unterminated
    } else {
        Nesting::Well
    };
    Reference { nesting, enabled: enabled_at, gap_enabled }
}

/// Layouts of a directive line the Programmer's Reference allows: (before the directive: white space
/// and C comments; between directive and macro name: white space; after the name: white space and any comment).
pub const LAYOUTS: &[(&str, &str, &str)] = &[
    ("", " ", ""),
    ("  ", "\t", " "),
    ("/*c*/ ", "  ", " // c"),
    ("\t", " ", "/*c*/"),
    ("", " ", " /* c\n   d */"),
    ("/* a */ /* b */", " \t ", "//c"),
];

thread_local! {
    /// (layout of even lines, layout of odd lines) used by `render`
    static LAYOUT: std::cell::Cell<(usize, usize)> = const { std::cell::Cell::new((0, 0)) };
}

fn directive_line(sym: &str, line: usize) -> String {
    let (even, odd) = LAYOUT.with(|l| l.get());
    let (pre, gap, post) = LAYOUTS[if line % 2 == 0 { even } else { odd }];
    match sym.split_once(' ') {
        Some((d, name)) => format!("{pre}{d}{gap}{name}{post}"),
        None => format!("{pre}{sym}{post}"),
    }
}

/// Text of a word: one symbol per line; the i-th marker is `class m<i>;`.
/// With `garbage`, markers on disabled lines become lexical garbage.
pub fn render(word: &[usize], r: &Reference, garbage: bool, nameless_at: Option<(usize, &str)>) -> (String, Vec<String>) {
    let mut text = String::new();
    let mut expected = Vec::new();
    let mut m = 0;
    for (i, &s) in word.iter().enumerate() {
        if let Some((at, d)) = nameless_at {
            if at == i {
                text.push_str(d);
                text.push('\n');
            }
        }
        if SYMS[s] == "M" {
            let name = format!("m{m}");
            m += 1;
            if r.enabled[i] {
                text.push_str(&format!("class {name};"));
                expected.push(name);
            } else if garbage {
                // (a string that ends in a backslash at the line end still ends there: the next line is a line)
                text.push_str(if m % 2 == 1 { "@ \"u ) !zz" } else { "the path is \"C:\\" });
            } else {
                text.push_str(&format!("class {name};"));
            }
        } else {
            text.push_str(&directive_line(SYMS[s], i));
        }
        text.push('\n');
    }
    if let Some((at, d)) = nameless_at {
        if at == word.len() {
            text.push_str(d);
            text.push('\n');
        }
    }
    (text, expected)
}

fn delivered_ids(text: &str) -> Result<(Vec<String>, usize), String> {
    guard(|| {
        let p = syntax::parse(text);
        let ids: Vec<String> = p
            .syntax_node()
            .descendants_with_tokens()
            .filter_map(|e| e.into_token())
            .filter(|t| t.kind() == SyntaxKind::Id)
            .map(|t| t.text().to_string())
            .collect();
        (ids, p.errors().len())
    })
    .map_err(|p| format!("parse panicked: {} at {}", p.message, p.location))
}

fn ide_view(text: &str) -> Result<(Vec<String>, Vec<String>), String> {
    guard(|| {
        let ws = Ws::single(text);
        let a = ws.analysis();
        let symbols: Vec<String> = a
            .document_symbol(ws.root)
            .unwrap_or_default()
            .into_iter()
            .filter(|s| matches!(s.kind, DocumentSymbolKind::Class))
            .map(|s| s.name.to_string())
            .collect();
        let mut diags: Vec<String> = Vec::new();
        for (f, ds) in a.diagnostics() {
            for d in ds {
                diags.push(format!("{}:{:?}:{}", ws.fs.path_of(f), d.location.range, d.message));
            }
        }
        diags.sort();
        (symbols, diags)
    })
    .map_err(|p| format!("analysis panicked: {} at {}", p.message, p.location))
}

#[derive(Debug, Clone, Copy, PartialEq, Eq)]
enum Expect {
    /// well nested: exact tokens, symbols, no diagnostics
    Exact,
    /// must have at least one syntax error
    MustError,
    /// property silent: only losslessness / totality
    Silent,
}

fn check(text: &str, expect: Expect, expected: &[String], with_ide: bool) -> Vec<(&'static str, String)> {
    let mut out = Vec::new();
    if let Some((c, d)) = c01::check_lossless(text) {
        out.push(("lossless", format!("{c}: {d}")));
    }
    if let (Some((c, d)), _, _) = c02::check_total(text) {
        out.push(("totality", format!("{c}: {d}")));
    }
    match expect {
        Expect::Silent => {}
        Expect::MustError => match delivered_ids(text) {
            Ok((_, 0)) => out.push((
                "unreported-directive-error",
                "an unterminated conditional or a directive without macro name produced no syntax error".to_string(),
            )),
            Ok(_) => {}
            Err(e) => out.push(("panic", e)),
        },
        Expect::Exact => {
            match delivered_ids(text) {
                Ok((ids, nerr)) => {
                    if ids != expected {
                        out.push(("delivered-tokens", format!("expected identifiers {expected:?}, parser received {ids:?}")));
                    }
                    if nerr != 0 {
                        out.push(("spurious-syntax-error", format!("{nerr} syntax errors on a well-nested input")));
                    }
                }
                Err(e) => out.push(("panic", e)),
            }
            if with_ide {
                match ide_view(text) {
                    Ok((symbols, diags)) => {
                        if symbols != expected {
                            out.push(("declarations", format!("expected classes {expected:?}, document symbols list {symbols:?}")));
                        }
                        if !diags.is_empty() {
                            out.push(("diagnostics", format!("expected none, got {diags:?}")));
                        }
                    }
                    Err(e) => out.push(("panic", e)),
                }
            }
        }
    }
    out
}

fn case_json(word: &[usize], garbage: bool, nameless: Option<(usize, &str)>) -> Value {
    let (even, odd) = LAYOUT.with(|l| l.get());
    json!({ "word": word, "garbage": garbage, "nameless": nameless.map(|(a, d)| json!([a, d])), "layout": [even, odd] })
}

fn witness(text: &str) -> String {
    text.trim_end().replace('\n', " ⏎ ")
}

const NAMELESS: &[&str] = &["#ifdef", "#ifndef", "#define"];

fn eval(word: &[usize], garbage: bool, nameless: Option<(usize, &str)>, with_ide: bool) -> (String, Nesting, Vec<Failure>) {
    let r = reference(word);
    let (text, expected) = render(word, &r, garbage, nameless);
    let expect = match (nameless, r.nesting) {
        (Some(_), Nesting::Ill) => Expect::Silent,
        // a nameless directive inside a disabled region is disabled text: the property is silent
        (Some((at, _)), _) if !r.gap_enabled[at] => Expect::Silent,
        (Some(_), _) => Expect::MustError,
        (None, Nesting::Well) => Expect::Exact,
        (None, Nesting::Unterminated) => Expect::MustError,
        (None, Nesting::Ill) => Expect::Silent,
    };
    let fails = check(&text, expect, &expected, with_ide)
        .into_iter()
        .map(|(c, d)| Failure::new(c, witness(&text), d, case_json(word, garbage, nameless)))
        .collect();
    (text, r.nesting, fails)
}

impl Engine for C15 {
    fn id(&self) -> &'static str {
        "C15"
    }

    fn rule(&self, tier: Tier) -> String {
        format!(
            "every word of length <= {} over {{#define A/B, #ifdef A/B, #ifndef A/B, #else, #endif, marker}}, one symbol per line, the i-th marker being `class m<i>;` \
             (document symbols and diagnostics through the ide for words <= {}); the same words with disabled markers replaced by lexical garbage; \
             each of the nameless directives #ifdef/#ifndef/#define inserted at every position of every word <= {}; \
             every word <= {} with every ordered pair of {} directive-line layouts (white space and C comments before the directive, blanks and tabs before the macro name, white space and line / block / multi-line comments after it) on even and odd lines. \
             non-trivial = the word contains a conditional and a marker; words are distinct by construction.",
            tier.pick(6, 8),
            tier.pick(5, 6),
            tier.pick(3, 4),
            tier.pick(4, 5),
            LAYOUTS.len()
        )
    }

    fn assumptions(&self) -> Vec<String> {
        vec![
            "reference evaluator: a macro is defined only by an earlier enabled #define; #else flips the innermost open conditional once; ill-nested words (stray #else/#endif, second #else) are only checked for losslessness and totality".into(),
            "one directive per line with a trailing newline, in the layouts the Programmer's Reference grammar allows (a comment between a directive and its macro name is not among them); directives sharing a line with other tokens are covered by C01/C02 only".into(),
        ]
    }

    fn explore(&self, tier: Tier, ctx: &mut Ctx) {
        let k = SYMS.len();
        let max_len = tier.pick(6, 8);
        let ide_len = tier.pick(5, 6);
        let (shard, n) = (ctx.shard, ctx.nshards);
        words::for_each_word(k, max_len, shard, n, |_, w| {
            let has_cond = w.iter().any(|&s| SYMS[s].starts_with("#if"));
            let has_marker = w.iter().any(|&s| SYMS[s] == "M");
            let nontrivial = has_cond && has_marker;
            for garbage in [false, true] {
                if garbage && !has_marker {
                    continue;
                }
                ctx.trace(|| case_json(w, garbage, None));
                let (text, nesting, fails) = eval(w, garbage, None, w.len() <= ide_len);
                ctx.case(nontrivial);
                ctx.add(
                    match nesting {
                        Nesting::Well => "well_nested",
                        Nesting::Unterminated => "unterminated",
                        Nesting::Ill => "ill_nested",
                    },
                    1,
                );
                if nontrivial && nesting == Nesting::Well {
                    ctx.sample(|| json!({ "text": witness(&text) }));
                }
                for f in fails {
                    ctx.fail(f);
                }
            }
            !ctx.expired()
        });
        // nameless directives
        let nl_len = tier.pick(3, 4);
        words::for_each_word(k, nl_len, shard, n, |_, w| {
            for at in 0..=w.len() {
                for d in NAMELESS {
                    ctx.trace(|| case_json(w, false, Some((at, d))));
                    let (_, _, fails) = eval(w, false, Some((at, d)), false);
                    ctx.case(true);
                    ctx.add("nameless", 1);
                    for f in fails {
                        ctx.fail(f);
                    }
                }
            }
            !ctx.expired()
        });
        // directive layouts: every ordered pair of layouts (even lines, odd lines) for every word of <= 4 (t: 5) symbols
        let lay_len = tier.pick(4, 5);
        for even in 0..LAYOUTS.len() {
            for odd in 0..LAYOUTS.len() {
                if (even, odd) == (0, 0) {
                    continue;
                }
                LAYOUT.with(|l| l.set((even, odd)));
                let mut go = true;
                words::for_each_word(k, lay_len, shard, n, |_, w| {
                    if !w.iter().any(|&s| SYMS[s].starts_with('#')) {
                        return true;
                    }
                    ctx.trace(|| case_json(w, false, None));
                    let (_, _, fails) = eval(w, false, None, false);
                    ctx.case(w.iter().any(|&s| SYMS[s].starts_with("#if")) && w.iter().any(|&s| SYMS[s] == "M"));
                    ctx.add("layouts", 1);
                    for f in fails {
                        ctx.fail(f);
                    }
                    go = !ctx.expired();
                    go
                });
                LAYOUT.with(|l| l.set((0, 0)));
                if !go {
                    return;
                }
            }
        }
    }

    fn eval_case(&self, case: &Value) -> Vec<Failure> {
        let word: Vec<usize> = case["word"]
            .as_array()
            .map(|a| a.iter().filter_map(|v| v.as_u64()).map(|v| v as usize).collect())
            .unwrap_or_default();
        let garbage = case["garbage"].as_bool().unwrap_or(false);
        let nameless_owned: Option<(usize, String)> = case["nameless"]
            .as_array()
            .map(|a| (a[0].as_u64().unwrap_or(0) as usize, a[1].as_str().unwrap_or("#ifdef").to_string()));
        let nameless = nameless_owned.as_ref().map(|(a, d)| (*a, d.as_str()));
        let layout = case["layout"].as_array().map(|a| (a[0].as_u64().unwrap_or(0) as usize % LAYOUTS.len(), a[1].as_u64().unwrap_or(0) as usize % LAYOUTS.len())).unwrap_or((0, 0));
        LAYOUT.with(|l| l.set(layout));
        let r = eval(&word, garbage, nameless, true).2;
        LAYOUT.with(|l| l.set((0, 0)));
        r
    }

    fn shrink(&self, case: &Value, _clause: &str) -> Vec<Value> {
        let word: Vec<usize> = case["word"]
            .as_array()
            .map(|a| a.iter().filter_map(|v| v.as_u64()).map(|v| v as usize).collect())
            .unwrap_or_default();
        let garbage = case["garbage"].as_bool().unwrap_or(false);
        let mut out = Vec::new();
        if garbage {
            out.push(json!({ "word": word, "garbage": false, "nameless": case["nameless"], "layout": case["layout"] }));
        }
        for w in tgv_core::shrink::deletions(&word) {
            // keep the nameless insertion point inside the word
            let nameless = match case["nameless"].as_array() {
                Some(a) => json!([(a[0].as_u64().unwrap_or(0) as usize).min(w.len()), a[1]]),
                None => Value::Null,
            };
            out.push(json!({ "word": w, "garbage": garbage, "nameless": nameless, "layout": case["layout"] }));
        }
        out
    }
}
