//! Shared machinery of the bounded-exhaustive explorers: sharding over worker
//! subprocesses, crash attribution, failure grouping and shrinking, known
//! findings, evidence and replay files.
//!
//! Nothing here makes a random choice. `VERIF_SEED` only rotates which explored
//! cases are copied into `coverage.samples`.

pub mod guard;
pub mod runner;
pub mod shrink;
pub mod words;

pub use guard::{guard, guard_on_stack, PanicInfo};
pub use runner::{main_for, Ctx, Engine, Failure, Form, Tier};
pub use serde_json::{json, Value};
