//! Candidate generators for greedy delta-minimisation.

/// All ways to delete one contiguous chunk from `v`: big chunks first, then
/// single elements. The caller keeps the first candidate that still fails.
pub fn deletions<T: Clone>(v: &[T]) -> Vec<Vec<T>> {
    let n = v.len();
    let mut out = Vec::new();
    if n == 0 {
        return out;
    }
    let mut size = n / 2;
    while size >= 1 {
        let mut start = 0;
        while start + size <= n {
            let mut c = Vec::with_capacity(n - size);
            c.extend_from_slice(&v[..start]);
            c.extend_from_slice(&v[start + size..]);
            out.push(c);
            start += size;
        }
        if size == 1 {
            break;
        }
        size /= 2;
    }
    out
}

/// Replace one element by a simpler one (`simpler(x)` lists candidates).
pub fn replacements<T: Clone>(v: &[T], simpler: impl Fn(&T) -> Vec<T>) -> Vec<Vec<T>> {
    let mut out = Vec::new();
    for i in 0..v.len() {
        for s in simpler(&v[i]) {
            let mut c = v.to_vec();
            c[i] = s;
            out.push(c);
        }
    }
    out
}

/// Delete one character or one line of a text (lines first).
pub fn text_deletions(s: &str) -> Vec<String> {
    let mut out = Vec::new();
    let lines: Vec<&str> = s.split_inclusive('\n').collect();
    if lines.len() > 1 {
        for d in deletions(&lines) {
            out.push(d.concat());
        }
    }
    let chars: Vec<char> = s.chars().collect();
    if chars.len() <= 400 {
        for d in deletions(&chars) {
            out.push(d.into_iter().collect());
        }
    }
    out
}
