//! Generic driver: parent process shards an engine's enumeration over worker
//! subprocesses, attributes crashes, shrinks and groups failures, consults the
//! known-findings file, writes evidence and replay artefacts.
//!
//! Exit codes: 0 = property held on everything explored (known findings are
//! printed as KNOWN-FINDING lines), 1 = at least one unlisted violation,
//! 2 = machinery failure (never a verdict).

use std::collections::{BTreeMap, BTreeSet};
use std::fs;
use std::io::{BufRead, BufReader, Read, Seek, SeekFrom, Write};
use std::path::{Path, PathBuf};
use std::process::{Command, Stdio};
use std::time::{Duration, Instant};

use serde::{Deserialize, Serialize};
use serde_json::{json, Value};

#[derive(Debug, Clone, Copy, PartialEq, Eq)]
pub enum Tier {
    Quick,
    Thorough,
}

impl Tier {
    pub fn name(self) -> &'static str {
        match self {
            Tier::Quick => "quick",
            Tier::Thorough => "thorough",
        }
    }
    pub fn pick<T>(self, quick: T, thorough: T) -> T {
        match self {
            Tier::Quick => quick,
            Tier::Thorough => thorough,
        }
    }
}

#[derive(Debug, Clone, Copy, PartialEq, Eq)]
pub enum Form {
    /// bounded-exhaustive inputs against a reference model / invariant
    E,
    /// explicit-state search over histories of the real object
    H,
    /// schedule exploration under a controlled scheduler
    S,
}

#[derive(Debug, Clone, Serialize, Deserialize)]
pub struct Failure {
    /// stable short name of the violated oracle clause
    pub clause: String,
    /// canonical, human-readable witness (after shrinking: the minimal one)
    pub witness: String,
    /// expected vs. actual
    pub detail: String,
    /// replayable case for `Engine::eval_case`
    pub case: Value,
}

impl Failure {
    pub fn new(clause: &str, witness: impl Into<String>, detail: impl Into<String>, case: Value) -> Self {
        Self {
            clause: clause.to_string(),
            witness: witness.into(),
            detail: detail.into(),
            case,
        }
    }
    pub fn key(&self) -> String {
        format!("{}|{}", self.clause, self.witness)
    }
}

pub trait Engine: Sync {
    fn id(&self) -> &'static str;
    fn form(&self) -> Form {
        Form::E
    }
    /// how cases are enumerated and what makes one non-trivial
    fn rule(&self, tier: Tier) -> String;
    fn assumptions(&self) -> Vec<String> {
        Vec::new()
    }
    /// write the current case to the trace file before every case (engines whose
    /// subject can abort the process); otherwise tracing only happens on a re-run
    fn trace_always(&self) -> bool {
        false
    }
    /// run in one worker (engines that parallelise or serialise themselves)
    fn workers(&self, default: usize) -> usize {
        default
    }
    fn budget(&self, tier: Tier) -> Duration {
        // a cap, not a target: quick runs take a fraction of it on an idle machine
        Duration::from_secs(tier.pick(150, 1500))
    }
    /// address-space cap of one worker process, in MiB (a runaway evaluation dies instead of exhausting the machine)
    fn as_limit_mb(&self, _tier: Tier) -> u64 {
        3072
    }
    /// enumerate this worker's share of the space and evaluate it
    fn explore(&self, tier: Tier, ctx: &mut Ctx);
    /// evaluate one case (replay and shrinking)
    fn eval_case(&self, case: &Value) -> Vec<Failure>;
    /// one-step smaller candidate cases, most aggressive first
    fn shrink(&self, _case: &Value, _clause: &str) -> Vec<Value> {
        Vec::new()
    }
}

const MAX_FAIL_PER_CLAUSE_PER_WORKER: usize = 24;
const MAX_SHRINK_PER_CLAUSE: usize = 10;
const MAX_SHRINK_EVALS: usize = 4000;
const MAX_REPORTED: usize = 25;

pub struct Ctx {
    pub shard: u64,
    pub nshards: u64,
    pub seed: u64,
    counter: u64,
    evaluations: u64,
    nontrivial: u64,
    counters: BTreeMap<String, u64>,
    maxes: BTreeMap<String, u64>,
    samples: Vec<Value>,
    failures: BTreeMap<String, Vec<Failure>>,
    fail_counts: BTreeMap<String, u64>,
    deadline: Instant,
    capped: bool,
    machinery: Vec<String>,
    trace: Option<fs::File>,
    out: std::io::Stdout,
    next_sample_at: u64,
}

impl Ctx {
    /// Round-robin sharding helper: every worker calls this at the same points of
    /// the same deterministic enumeration; exactly one of them gets `true`.
    #[inline]
    pub fn mine(&mut self) -> bool {
        let k = self.counter;
        self.counter += 1;
        k % self.nshards == self.shard
    }

    #[inline]
    pub fn is_mine(&self, k: u64) -> bool {
        k % self.nshards == self.shard
    }

    /// Records the case about to run so that a crash can be attributed to it.
    #[inline]
    pub fn trace(&mut self, f: impl FnOnce() -> Value) {
        if let Some(file) = self.trace.as_mut() {
            let s = f().to_string();
            let _ = file.seek(SeekFrom::Start(0));
            let _ = file.write_all(s.as_bytes());
            let _ = file.write_all(b"\n");
            let _ = file.set_len(s.len() as u64 + 1);
        }
    }

    pub fn tracing(&self) -> bool {
        self.trace.is_some()
    }

    /// Counts one evaluated case.
    #[inline]
    pub fn case(&mut self, nontrivial: bool) {
        PROGRESS.fetch_add(1, std::sync::atomic::Ordering::Relaxed);
        self.evaluations += 1;
        if nontrivial {
            self.nontrivial += 1;
        }
    }

    /// Offers a non-trivial case as an evidence sample (kept sparsely).
    #[inline]
    pub fn sample(&mut self, f: impl FnOnce() -> Value) {
        if self.nontrivial >= self.next_sample_at && self.samples.len() < 6 {
            self.samples.push(f());
            // 1, 2, then geometrically, rotated by the seed
            self.next_sample_at = self.nontrivial * 7 + 1 + (self.seed % 5);
        }
    }

    pub fn add(&mut self, key: &str, n: u64) {
        *self.counters.entry(key.to_string()).or_insert(0) += n;
    }

    pub fn max(&mut self, key: &str, v: u64) {
        let e = self.maxes.entry(key.to_string()).or_insert(0);
        if v > *e {
            *e = v;
        }
    }

    pub fn fail(&mut self, f: Failure) {
        *self.fail_counts.entry(f.clause.clone()).or_insert(0) += 1;
        let list = self.failures.entry(f.clause.clone()).or_default();
        // keep the shortest witnesses
        if list.len() < MAX_FAIL_PER_CLAUSE_PER_WORKER {
            list.push(f);
        } else {
            let (imax, lmax) = list
                .iter()
                .enumerate()
                .map(|(i, x)| (i, x.witness.len()))
                .max_by_key(|&(_, l)| l)
                .unwrap();
            if f.witness.len() < lmax {
                list[imax] = f;
            }
        }
    }

    /// True once the tier's wall budget is spent; engines stop enumerating and
    /// the run is reported as capped (never as exhaustive).
    #[inline]
    pub fn expired(&mut self) -> bool {
        if self.capped {
            return true;
        }
        if self.evaluations % 64 == 0 && Instant::now() >= self.deadline {
            self.capped = true;
        }
        self.capped
    }

    /// A defect of the machinery itself (reference model audit failed, ...): exit 2, never a verdict.
    pub fn machinery_error(&mut self, msg: String) {
        if self.machinery.len() < 5 {
            self.machinery.push(msg);
        }
    }

    pub fn mark_capped(&mut self) {
        self.capped = true;
    }

    fn finish(mut self) {
        let mut lock = self.out.lock();
        for (_, list) in std::mem::take(&mut self.failures) {
            for f in list {
                let _ = writeln!(lock, "{}", json!({"t": "fail", "f": f}));
            }
        }
        let _ = writeln!(
            lock,
            "{}",
            json!({
                "t": "stats",
                "evaluations": self.evaluations,
                "nontrivial": self.nontrivial,
                "counters": self.counters,
                "maxes": self.maxes,
                "samples": self.samples,
                "fail_counts": self.fail_counts,
                "capped": self.capped,
                "machinery": self.machinery,
            })
        );
        let _ = lock.flush();
    }
}

#[derive(Debug, Default, Deserialize)]
struct KnownFile {
    #[serde(default)]
    open: Vec<KnownEntry>,
    #[serde(default)]
    fixed: Vec<String>,
}

#[derive(Debug, Deserialize)]
struct KnownEntry {
    property: String,
    key: String,
    #[serde(default)]
    what: String,
}

pub fn root() -> PathBuf {
    PathBuf::from(std::env::var("TGV_ROOT").unwrap_or_else(|_| "/verif".to_string()))
}

fn sha(s: &str) -> String {
    // FNV-1a 64, twice with different offsets: file names only, not security
    let mut h1: u64 = 0xcbf29ce484222325;
    let mut h2: u64 = 0x84222325cbf29ce4;
    for b in s.as_bytes() {
        h1 ^= *b as u64;
        h1 = h1.wrapping_mul(0x100000001b3);
        h2 = h2.rotate_left(5) ^ (*b as u64);
        h2 = h2.wrapping_mul(0x9E3779B97F4A7C15);
    }
    format!("{:016x}{:08x}", h1, (h2 >> 32) as u32)
}

struct Args {
    id: String,
    tier: Tier,
    worker: Option<(u64, u64)>,
    replay: Option<PathBuf>,
    shrink: Option<PathBuf>,
}

fn parse_args() -> Args {
    let mut it = std::env::args().skip(1);
    let mut id = String::new();
    let mut tier = match std::env::var("VERIF_TIER").ok().as_deref() {
        Some("thorough") => Tier::Thorough,
        _ => Tier::Quick,
    };
    let mut worker = None;
    let mut replay = None;
    let mut shrink = None;
    while let Some(a) = it.next() {
        match a.as_str() {
            "--tier" => {
                tier = match it.next().as_deref() {
                    Some("quick") => Tier::Quick,
                    Some("thorough") => Tier::Thorough,
                    other => die(&format!("bad --tier {other:?}")),
                }
            }
            "--worker" => {
                let v = it.next().unwrap_or_default();
                let (a, b) = v.split_once('/').unwrap_or_else(|| die("bad --worker"));
                worker = Some((a.parse().unwrap(), b.parse().unwrap()));
            }
            "--replay" => replay = Some(PathBuf::from(it.next().unwrap_or_default())),
            "--shrink" => shrink = Some(PathBuf::from(it.next().unwrap_or_default())),
            s if id.is_empty() && !s.starts_with('-') => id = s.to_string(),
            s => die(&format!("unknown argument {s}")),
        }
    }
    Args { id, tier, worker, replay, shrink }
}

fn die(msg: &str) -> ! {
    eprintln!("tgv: {msg}");
    std::process::exit(2)
}

fn seed() -> u64 {
    std::env::var("VERIF_SEED").ok().and_then(|s| s.parse::<i64>().ok()).unwrap_or(0) as u64
}

pub fn main_for(engines: &[&dyn Engine]) {
    let args = parse_args();
    if let Some(path) = &args.replay {
        replay_main(engines, path);
    }
    let Some(engine) = engines.iter().find(|e| e.id() == args.id) else {
        die(&format!(
            "unknown engine {:?}; have {:?}",
            args.id,
            engines.iter().map(|e| e.id()).collect::<Vec<_>>()
        ));
    };
    if let Some(path) = &args.shrink {
        shrink_main(*engine, path);
    }
    match args.worker {
        Some((i, n)) => worker_main(*engine, args.tier, i, n),
        None => parent_main(*engine, args.tier),
    }
}

/// Cases completed by this worker process; watched by the stall detector.
static PROGRESS: std::sync::atomic::AtomicU64 = std::sync::atomic::AtomicU64::new(0);

/// Exit code of a worker that completed no case for the stall limit: it is stuck inside one
/// evaluation (a loop in the subject that allocates nothing and reaches no hook).
const STALL_EXIT: i32 = 86;

fn stall_limit(tier: Tier) -> Duration {
    let default = tier.pick(90, 600);
    Duration::from_secs(std::env::var("TGV_STALL_SECS").ok().and_then(|s| s.parse().ok()).unwrap_or(default))
}

fn worker_main(engine: &dyn Engine, tier: Tier, shard: u64, nshards: u64) -> ! {
    {
        let limit = stall_limit(tier);
        std::thread::spawn(move || {
            let mut last = PROGRESS.load(std::sync::atomic::Ordering::Relaxed);
            let mut since = Instant::now();
            loop {
                std::thread::sleep(Duration::from_millis(500));
                let now = PROGRESS.load(std::sync::atomic::Ordering::Relaxed);
                if now != last {
                    last = now;
                    since = Instant::now();
                } else if since.elapsed() > limit {
                    eprintln!("worker stalled: no case completed for {limit:?} (stuck inside one evaluation)");
                    std::process::exit(STALL_EXIT);
                }
            }
        });
    }
    let trace = std::env::var("TGV_TRACE_FILE").ok().map(|p| {
        fs::OpenOptions::new()
            .create(true)
            .write(true)
            .truncate(true)
            .open(p)
            .expect("open trace file")
    });
    let mut ctx = Ctx {
        shard,
        nshards,
        seed: seed(),
        counter: 0,
        evaluations: 0,
        nontrivial: 0,
        counters: BTreeMap::new(),
        maxes: BTreeMap::new(),
        samples: Vec::new(),
        failures: BTreeMap::new(),
        fail_counts: BTreeMap::new(),
        deadline: Instant::now() + engine.budget(tier),
        capped: false,
        machinery: Vec::new(),
        trace,
        out: std::io::stdout(),
        next_sample_at: 1 + seed() % 3,
    };
    engine.explore(tier, &mut ctx);
    ctx.finish();
    std::process::exit(0)
}

struct WorkerOut {
    failures: Vec<Failure>,
    stats: Option<Value>,
    status: String,
    stderr_tail: String,
}

fn run_worker(id: &str, tier: Tier, i: u64, n: u64, trace_file: Option<&Path>, hard_limit: Duration, as_limit_mb: u64) -> WorkerOut {
    let exe = std::env::current_exe().expect("current_exe");
    let mut cmd = Command::new(exe);
    cmd.arg(id)
        .arg("--tier")
        .arg(tier.name())
        .arg("--worker")
        .arg(format!("{i}/{n}"))
        .stdin(Stdio::null())
        .stdout(Stdio::piped())
        .stderr(Stdio::piped());
    match trace_file {
        Some(p) => {
            cmd.env("TGV_TRACE_FILE", p);
        }
        None => {
            cmd.env_remove("TGV_TRACE_FILE");
        }
    }
    // a runaway evaluation (a loop that allocates for ever) must end as a dead worker that is
    // attributed to its traced case, not as a machine without memory: cap the worker's address space
    {
        use std::os::unix::process::CommandExt;
        let mb: u64 = std::env::var("TGV_AS_LIMIT_MB").ok().and_then(|s| s.parse().ok()).unwrap_or(as_limit_mb);
        cmd.env("MALLOC_ARENA_MAX", "4");
        unsafe {
            cmd.pre_exec(move || {
                let lim = libc::rlimit { rlim_cur: (mb << 20) as libc::rlim_t, rlim_max: (mb << 20) as libc::rlim_t };
                libc::setrlimit(libc::RLIMIT_AS, &lim);
                Ok(())
            });
        }
    }
    let mut child = cmd.spawn().expect("spawn worker");
    let hard_deadline = Instant::now() + hard_limit;
    let stderr = child.stderr.take().unwrap();
    let err_thread = std::thread::spawn(move || {
        let mut s = String::new();
        let _ = BufReader::new(stderr).read_to_string(&mut s);
        s
    });
    let stdout = child.stdout.take().unwrap();
    let out_thread = std::thread::spawn(move || {
        let mut failures = Vec::new();
        let mut stats = None;
        for line in BufReader::new(stdout).lines() {
            let Ok(line) = line else { break };
            let Ok(v) = serde_json::from_str::<Value>(&line) else {
                continue;
            };
            match v.get("t").and_then(|t| t.as_str()) {
                Some("fail") => {
                    if let Ok(f) = serde_json::from_value::<Failure>(v["f"].clone()) {
                        failures.push(f);
                    }
                }
                Some("stats") => stats = Some(v),
                _ => {}
            }
        }
        (failures, stats)
    });
    // watchdog: a worker that outlives its budget by far is hanging in the subject
    let mut hung = false;
    let status = loop {
        match child.try_wait() {
            Ok(Some(s)) => break format!("{s}"),
            Ok(None) => {
                if Instant::now() >= hard_deadline {
                    let _ = child.kill();
                    let _ = child.wait();
                    hung = true;
                    break "killed by the watchdog: no progress within the hard time limit (hang)".to_string();
                }
                std::thread::sleep(Duration::from_millis(20));
            }
            Err(e) => break format!("{e}"),
        }
    };
    let (failures, mut stats) = out_thread.join().unwrap_or_default();
    if hung {
        stats = None;
    }
    let stderr = err_thread.join().unwrap_or_default();
    let tail: String = {
        let lines: Vec<&str> = stderr.lines().collect();
        let from = lines.len().saturating_sub(12);
        lines[from..].join("\n")
    };
    WorkerOut {
        failures,
        stats,
        status,
        stderr_tail: tail,
    }
}

fn parent_main(engine: &dyn Engine, tier: Tier) -> ! {
    let t0 = Instant::now();
    let id = engine.id();
    let root = root();
    let work = root.join(".work").join(id);
    let _ = fs::remove_dir_all(&work);
    fs::create_dir_all(&work).expect("create work dir");

    let default_workers = std::env::var("TGV_WORKERS")
        .ok()
        .and_then(|s| s.parse().ok())
        .unwrap_or_else(|| {
            std::thread::available_parallelism()
                .map(|n| n.get())
                .unwrap_or(4)
                .min(16)
        });
    let n = engine.workers(default_workers).max(1) as u64;

    let trace_always = engine.trace_always();
    // budget expiry is checked between cases; a worker needing three times its budget plus a minute is stuck inside one
    let hard_limit = engine.budget(tier) * 3 + Duration::from_secs(60);
    let as_limit_mb = engine.as_limit_mb(tier);
    let outs: Vec<WorkerOut> = std::thread::scope(|s| {
        let handles: Vec<_> = (0..n)
            .map(|i| {
                let work = work.clone();
                s.spawn(move || {
                    let tf = work.join(format!("trace.{i}"));
                    let out = run_worker(id, tier, i, n, trace_always.then_some(tf.as_path()), hard_limit, as_limit_mb);
                    (i, out)
                })
            })
            .collect();
        handles.into_iter().map(|h| h.join().expect("worker thread").1).collect()
    });

    let mut failures: Vec<Failure> = Vec::new();
    let mut evaluations = 0u64;
    let mut nontrivial = 0u64;
    let mut counters: BTreeMap<String, u64> = BTreeMap::new();
    let mut maxes: BTreeMap<String, u64> = BTreeMap::new();
    let mut samples: Vec<Value> = Vec::new();
    let mut fail_counts: BTreeMap<String, u64> = BTreeMap::new();
    let mut capped = false;
    let mut machinery_errors: Vec<String> = Vec::new();

    for (i, out) in outs.into_iter().enumerate() {
        failures.extend(out.failures);
        match out.stats {
            Some(st) => {
                evaluations += st["evaluations"].as_u64().unwrap_or(0);
                nontrivial += st["nontrivial"].as_u64().unwrap_or(0);
                if let Some(m) = st["counters"].as_object() {
                    for (k, v) in m {
                        *counters.entry(k.clone()).or_insert(0) += v.as_u64().unwrap_or(0);
                    }
                }
                if let Some(m) = st["maxes"].as_object() {
                    for (k, v) in m {
                        let e = maxes.entry(k.clone()).or_insert(0);
                        *e = (*e).max(v.as_u64().unwrap_or(0));
                    }
                }
                if let Some(m) = st["fail_counts"].as_object() {
                    for (k, v) in m {
                        *fail_counts.entry(k.clone()).or_insert(0) += v.as_u64().unwrap_or(0);
                    }
                }
                if let Some(a) = st["samples"].as_array() {
                    samples.extend(a.iter().cloned());
                }
                capped |= st["capped"].as_bool().unwrap_or(false);
                if let Some(a) = st["machinery"].as_array() {
                    machinery_errors.extend(a.iter().filter_map(|x| x.as_str()).map(|x| x.to_string()));
                }
            }
            None => {
                // the worker died: find the case it was running
                let tf = work.join(format!("trace.{i}"));
                let mut status = out.status.clone();
                let mut tail = out.stderr_tail.clone();
                if !trace_always {
                    let again = run_worker(id, tier, i as u64, n, Some(&tf), hard_limit, as_limit_mb);
                    if again.stats.is_some() {
                        machinery_errors.push(format!(
                            "worker {i} died ({status}) but completed when re-run with tracing: {tail}"
                        ));
                        continue;
                    }
                    status = again.status;
                    tail = again.stderr_tail;
                }
                match fs::read_to_string(&tf).ok().and_then(|s| serde_json::from_str::<Value>(s.trim()).ok()) {
                    Some(case) => {
                        let witness = case
                            .get("witness")
                            .and_then(|w| w.as_str())
                            .map(|s| s.to_string())
                            .unwrap_or_else(|| case.to_string());
                        *fail_counts.entry("crash".into()).or_insert(0) += 1;
                        failures.push(Failure {
                            clause: "crash".into(),
                            witness,
                            detail: format!("worker process died ({status}); stderr tail:\n{tail}"),
                            case,
                        });
                        capped = true;
                    }
                    None => machinery_errors.push(format!(
                        "worker {i} died ({status}) without a case marker: {tail}"
                    )),
                }
            }
        }
    }

    // group by clause, shrink the smallest few of each, dedupe by witness key
    let mut by_clause: BTreeMap<String, Vec<Failure>> = BTreeMap::new();
    for f in failures {
        by_clause.entry(f.clause.clone()).or_default().push(f);
    }
    let mut distinct: BTreeMap<String, Failure> = BTreeMap::new();
    for (clause, mut list) in by_clause {
        list.sort_by(|a, b| (a.witness.len(), &a.witness).cmp(&(b.witness.len(), &b.witness)));
        list.dedup_by(|a, b| a.witness == b.witness);
        for f in list.into_iter().take(MAX_SHRINK_PER_CLAUSE) {
            let f = if clause == "crash" {
                f
            } else {
                match shrink_in_child(id, f, &work) {
                    Ok(f) => f,
                    Err(msg) => {
                        machinery_errors.push(msg);
                        continue;
                    }
                }
            };
            distinct.entry(f.key()).or_insert(f);
        }
    }

    // known findings
    let known: KnownFile = fs::read_to_string(root.join("known_findings.json"))
        .ok()
        .and_then(|s| serde_json::from_str(&s).ok())
        .unwrap_or_default();
    let _ = &known.fixed;
    let known_keys: BTreeMap<&str, &KnownEntry> = known
        .open
        .iter()
        .filter(|e| e.property == id)
        .map(|e| (e.key.as_str(), e))
        .collect();

    let replay_dir = root.join("replays").join(id);
    // replay files describe this run only
    let _ = fs::remove_dir_all(&replay_dir);
    let mut new_violations = Vec::new();
    let mut known_hit = BTreeSet::new();
    for (key, f) in &distinct {
        if let Some(e) = known_keys.get(key.as_str()) {
            known_hit.insert(key.clone());
            println!("KNOWN-FINDING: property={id} {} [{}]", e.what, key.replace('\n', "\\n"));
            continue;
        }
        let _ = fs::create_dir_all(&replay_dir);
        let path = replay_dir.join(format!("{}.json", sha(key)));
        let doc = json!({
            "property": id,
            "engine": id,
            "key": key,
            "clause": f.clause,
            "witness": f.witness,
            "detail": f.detail,
            "case": f.case,
            "replay": format!("./check replay {}", path.display()),
        });
        let _ = fs::write(&path, serde_json::to_string_pretty(&doc).unwrap());
        new_violations.push((key.clone(), path));
    }
    for (key, path) in new_violations.iter().take(MAX_REPORTED) {
        let f = &distinct[key];
        println!("VIOLATION property={id} replay={}", path.display());
        println!("  clause={} witness={}", f.clause, f.witness.replace('\n', "\\n"));
        let d: String = f.detail.chars().take(600).collect();
        println!("  detail={}", d.replace('\n', "\n         "));
    }
    if new_violations.len() > MAX_REPORTED {
        println!("  ... and {} more distinct witnesses", new_violations.len() - MAX_REPORTED);
    }

    // evidence
    let wall = t0.elapsed().as_secs_f64();
    if samples.len() > 12 {
        let step = samples.len() as f64 / 12.0;
        samples = (0..12).map(|k| samples[(k as f64 * step) as usize].clone()).collect();
    }
    let exhaustive = !capped && machinery_errors.is_empty();
    let mut coverage = serde_json::Map::new();
    coverage.insert("evaluations".into(), json!(evaluations));
    coverage.insert("distinct_nontrivial".into(), json!(nontrivial));
    coverage.insert("rule".into(), json!(engine.rule(tier)));
    coverage.insert("samples".into(), json!(samples));
    coverage.insert("exhaustive".into(), json!(exhaustive));
    if capped {
        coverage.insert(
            "cap".into(),
            json!(format!(
                "wall budget of {} s reached (or a worker crashed): the enumeration was cut short; counts are what was completed",
                engine.budget(tier).as_secs()
            )),
        );
    }
    for (k, v) in &counters {
        coverage.insert(k.clone(), json!(v));
    }
    for (k, v) in &maxes {
        coverage.insert(format!("max_{k}"), json!(v));
    }
    if engine.form() != Form::E {
        // every explored trace is executed on the implementation
        let traces = counters.get("traces").copied().unwrap_or(evaluations);
        coverage.entry("states").or_insert(json!(counters
            .get("states")
            .copied()
            .or(maxes.get("states").copied())
            .unwrap_or(evaluations)
            .max(1)));
        coverage.entry("transitions").or_insert(json!(counters.get("transitions").copied().unwrap_or(evaluations).max(1)));
        coverage.insert("traces_validated_against_impl".into(), json!(traces));
    }
    coverage.insert("workers".into(), json!(n));
    coverage.insert("failing_cases_by_clause".into(), json!(fail_counts));
    let evidence = json!({
        "property_id": id,
        "tier": tier.name(),
        "seed": seed() as i64,
        "level": "model_checking",
        "coverage": Value::Object(coverage),
        "assumptions": engine.assumptions(),
        "wall_s": (wall * 100.0).round() / 100.0,
        "violations": new_violations.len(),
        "known_findings": known_hit.len(),
        "machinery_errors": machinery_errors,
    });
    let ev_dir = root.join("evidence");
    let _ = fs::create_dir_all(&ev_dir);
    fs::write(ev_dir.join(format!("{id}.json")), serde_json::to_string_pretty(&evidence).unwrap() + "\n")
        .expect("write evidence");

    println!(
        "{id} {}: evaluations={evaluations} nontrivial={nontrivial} exhaustive={exhaustive} violations={} known={} wall={:.1}s",
        tier.name(),
        new_violations.len(),
        known_hit.len(),
        wall
    );
    for (k, v) in &counters {
        println!("  {k}={v}");
    }
    for (k, v) in &maxes {
        println!("  max_{k}={v}");
    }
    if !machinery_errors.is_empty() {
        for m in &machinery_errors {
            eprintln!("MACHINERY-ERROR: {m}");
        }
        // a confirmed, replayable violation stands even if another part of the run misbehaved
        std::process::exit(if new_violations.is_empty() { 2 } else { 1 });
    }
    if !new_violations.is_empty() {
        std::process::exit(1);
    }
    if evaluations == 0 {
        eprintln!("MACHINERY-ERROR: nothing was explored");
        std::process::exit(2);
    }
    std::process::exit(0)
}

/// `--shrink <file>`: confirm and shrink the failure stored in the file, print the outcome as one JSON line.
fn shrink_main(engine: &dyn Engine, path: &Path) -> ! {
    let f: Failure = fs::read_to_string(path).ok().and_then(|s| serde_json::from_str(&s).ok()).unwrap_or_else(|| die("unreadable --shrink file"));
    let out = match confirm_and_shrink(engine, f) {
        Ok(f) => json!({ "ok": f }),
        Err(msg) => json!({ "err": msg }),
    };
    println!("{out}");
    std::process::exit(0)
}

/// Confirmation and shrinking re-run the subject: they happen in a child process so that a crash of
/// the subject on a candidate cannot take the report of the whole run with it.
fn shrink_in_child(id: &str, f: Failure, work: &Path) -> Result<Failure, String> {
    let path = work.join("shrink.json");
    if fs::write(&path, serde_json::to_string(&f).unwrap_or_default()).is_err() {
        return Ok(f);
    }
    let exe = std::env::current_exe().expect("current_exe");
    let out = Command::new(exe).arg(id).arg("--shrink").arg(&path).stdin(Stdio::null()).stderr(Stdio::null()).output();
    let parsed = out.as_ref().ok().filter(|o| o.status.success()).and_then(|o| {
        String::from_utf8_lossy(&o.stdout).lines().rev().find_map(|l| serde_json::from_str::<Value>(l).ok())
    });
    match parsed {
        Some(v) if v.get("ok").is_some() => serde_json::from_value::<Failure>(v["ok"].clone()).map_err(|e| e.to_string()),
        Some(v) => Err(v["err"].as_str().unwrap_or("shrinking failed").to_string()),
        None => {
            // the shrinking process died: report the failure as found
            let mut f = f;
            f.detail.push_str(" (not shrunk: the process re-running it died)");
            Ok(f)
        }
    }
}

fn confirm_and_shrink(engine: &dyn Engine, f: Failure) -> Result<Failure, String> {
    // re-execute: the same clause must fail again, otherwise the harness is not deterministic
    let again = engine.eval_case(&f.case);
    let Some(mut cur) = again.into_iter().find(|g| g.clause == f.clause) else {
        return Err(format!(
            "failure did not reproduce on re-execution: clause={} witness={:?}",
            f.clause, f.witness
        ));
    };
    let mut evals = 0;
    let shrink_deadline = Instant::now() + Duration::from_secs(8);
    'outer: loop {
        for cand in engine.shrink(&cur.case, &cur.clause) {
            evals += 1;
            if evals > MAX_SHRINK_EVALS || Instant::now() >= shrink_deadline {
                break 'outer;
            }
            if let Some(g) = engine.eval_case(&cand).into_iter().find(|g| g.clause == cur.clause) {
                cur = g;
                continue 'outer;
            }
        }
        break;
    }
    Ok(cur)
}

fn replay_main(engines: &[&dyn Engine], path: &Path) -> ! {
    let doc: Value = fs::read_to_string(path)
        .ok()
        .and_then(|s| serde_json::from_str(&s).ok())
        .unwrap_or_else(|| die(&format!("cannot read replay file {}", path.display())));
    let id = doc["engine"].as_str().unwrap_or_default().to_string();
    let Some(engine) = engines.iter().find(|e| e.id() == id) else {
        // not ours: let the driver try another binary
        std::process::exit(3);
    };
    let clause = doc["clause"].as_str().unwrap_or_default();
    let fs_ = engine.eval_case(&doc["case"]);
    let mut hit = false;
    for f in &fs_ {
        println!("clause={} witness={}", f.clause, f.witness.replace('\n', "\\n"));
        println!("  detail={}", f.detail);
        if f.clause == clause {
            hit = true;
        }
    }
    if hit {
        println!("VIOLATION property={id} replay={}", path.display());
        std::process::exit(1)
    }
    println!("replay: clause {clause:?} did not fail ({} other failures)", fs_.len());
    std::process::exit(0)
}
