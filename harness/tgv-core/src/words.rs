//! Index-addressable enumeration of all words over an alphabet.

/// Number of words of length exactly `len` over `k` symbols (saturating).
pub fn count_exact(k: u64, len: u32) -> u64 {
    k.checked_pow(len).unwrap_or(u64::MAX)
}

/// Number of words of length 0..=max_len.
pub fn count_upto(k: u64, max_len: u32) -> u64 {
    (0..=max_len).fold(0u64, |a, l| a.saturating_add(count_exact(k, l)))
}

/// Decodes the `idx`-th word (shortlex order: shorter words first) into symbol
/// indices. `idx < count_upto(k, max_len)`.
pub fn decode(mut idx: u64, k: u64, max_len: u32, out: &mut Vec<usize>) {
    out.clear();
    let mut len = 0;
    loop {
        let c = count_exact(k, len);
        if idx < c {
            break;
        }
        idx -= c;
        len += 1;
        assert!(len <= max_len, "word index out of range");
    }
    for _ in 0..len {
        out.push((idx % k) as usize);
        idx /= k;
    }
    out.reverse();
}

/// Calls `f` with every word index sequence of length 0..=max_len whose global
/// shortlex index satisfies `mine(idx)`. Stops early when `f` returns false.
pub fn for_each_word(k: usize, max_len: u32, shard: u64, nshards: u64, mut f: impl FnMut(u64, &[usize]) -> bool) {
    let total = count_upto(k as u64, max_len);
    let mut buf = Vec::with_capacity(max_len as usize);
    let mut idx = shard;
    while idx < total {
        decode(idx, k as u64, max_len, &mut buf);
        if !f(idx, &buf) {
            return;
        }
        idx += nshards;
    }
}

#[cfg(test)]
mod tests {
    use super::*;
    #[test]
    fn decode_is_a_bijection() {
        let mut seen = std::collections::BTreeSet::new();
        let mut buf = Vec::new();
        for i in 0..count_upto(3, 3) {
            decode(i, 3, 3, &mut buf);
            assert!(seen.insert(buf.clone()));
        }
        assert_eq!(seen.len(), 1 + 3 + 9 + 27);
    }
}
