//! Panic capture without noise on stderr, and running a closure on a thread with
//! an explicit stack size (tokio's blocking pool gives requests 2 MiB).

use std::cell::RefCell;
use std::panic::{self, AssertUnwindSafe};
use std::sync::Once;

#[derive(Debug, Clone)]
pub struct PanicInfo {
    pub message: String,
    pub location: String,
}

impl PanicInfo {
    pub fn is_fuel(&self) -> bool {
        self.message.contains("verif: fuel exhausted")
    }
}

thread_local! {
    static LAST: RefCell<Option<PanicInfo>> = const { RefCell::new(None) };
    static QUIET: RefCell<bool> = const { RefCell::new(false) };
}

static HOOK: Once = Once::new();

fn install_hook() {
    HOOK.call_once(|| {
        let default = panic::take_hook();
        panic::set_hook(Box::new(move |info| {
            let quiet = QUIET.with(|q| *q.borrow());
            if !quiet {
                default(info);
                return;
            }
            let message = if let Some(s) = info.payload().downcast_ref::<&str>() {
                s.to_string()
            } else if let Some(s) = info.payload().downcast_ref::<String>() {
                s.clone()
            } else {
                "<non-string panic payload>".to_string()
            };
            let location = info
                .location()
                .map(|l| format!("{}:{}", l.file(), l.line()))
                .unwrap_or_default();
            LAST.with(|l| *l.borrow_mut() = Some(PanicInfo { message, location }));
        }));
    });
}

/// Runs `f`, converting a panic into `Err(PanicInfo)`.
pub fn guard<T>(f: impl FnOnce() -> T) -> Result<T, PanicInfo> {
    install_hook();
    let prev = QUIET.with(|q| std::mem::replace(&mut *q.borrow_mut(), true));
    let r = panic::catch_unwind(AssertUnwindSafe(f));
    QUIET.with(|q| *q.borrow_mut() = prev);
    r.map_err(|_| {
        LAST.with(|l| l.borrow_mut().take()).unwrap_or(PanicInfo {
            message: "<unknown panic>".into(),
            location: String::new(),
        })
    })
}

/// Runs `f` on a fresh thread with `stack` bytes of stack; panics are captured.
/// A stack overflow still kills the process: callers isolate in subprocesses.
pub fn guard_on_stack<T: Send>(stack: usize, f: impl FnOnce() -> T + Send) -> Result<T, PanicInfo> {
    install_hook();
    std::thread::scope(|s| {
        std::thread::Builder::new()
            .stack_size(stack)
            .spawn_scoped(s, || guard(f))
            .expect("spawn")
            .join()
            .unwrap_or_else(|_| {
                Err(PanicInfo {
                    message: "<thread join failed>".into(),
                    location: String::new(),
                })
            })
    })
}
